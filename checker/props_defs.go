package main

// props_defs.go — the 18 properties: which rules decide which clauses (DESIGN §4).

import "strings"

func pr(level, explain string, rules ...*RuleResult) *PropertyRun {
	return &PropertyRun{Level: level, Trusted: trustedBase, Assume: commonAssumptions, Rules: rules, Explain: explain}
}

func prefixFilter(r *RuleResult, rule, title string, floor int, prefixes ...string) *RuleResult {
	return filter(r, rule, title, floor, func(o Obligation) bool {
		for _, p := range prefixes {
			if strings.HasPrefix(o.Key, p) {
				return true
			}
		}
		return false
	})
}

const notBehaviour = " These are necessary structural clauses of the property, decided for all paths of the current source; the behaviour as a whole (see 'Not decided') is not claimed."

// ringIndexRule: the ring-slice index discipline (R19b-index), shared by C05, C08, C11 and C17.
func ringIndexRule(c *Ctx) *RuleResult {
	return prefixFilter(c.rule("R19", ruleR19), "R19", "RING: the ring slice is indexed only by start, end or (start+i) % capacity", 1, "R19b-index:")
}

// substrate: the structural rules of a container that other containers are built on. A property about the dependants
// inherits them — a red-black tree that loses a key loses a TreeSet member and one direction of a TreeBidiMap pair.
func substrate(c *Ctx, which string) []*RuleResult {
	switch which {
	case "rbt":
		return []*RuleResult{
			prefixFilter(c.rule("R11", ruleR11), "R11", "substrate red-black tree: parent links mirror child links", 8, "R11:trees/redblacktree"),
			prefixFilter(c.rule("R10", ruleR10), "R10", "substrate red-black tree: rotations, fix-up arms, Put/lookup arms are mirror images", 8, "R10:trees/redblacktree.Tree.rotate", "R10:trees/redblacktree.Tree.insertCase", "R10:trees/redblacktree.Tree.deleteCase", "R10:trees/redblacktree.Tree.replaceNode", "R10:trees/redblacktree.Node.sibling", "R10:trees/redblacktree.Tree.Put", "R10:trees/redblacktree.Tree.lookup"),
			prefixFilter(c.rule("R34", ruleR34), "R34", "substrate red-black tree: rotations preserve the in-order sequence", 2, "R34:trees/redblacktree"),
			prefixFilter(c.rule("R12", ruleR12), "R12", "substrate red-black tree: the size counter moves only with the structure", 4, "R12b:trees/redblacktree", "R12c:trees/redblacktree", "R12d:trees/redblacktree", "R12e:trees/redblacktree"),
			prefixFilter(c.rule("R13", ruleR13), "R13", "substrate red-black tree: descents use the comparator's full verdict with one orientation; no Go operators on keys", 4, "R13a:trees/redblacktree", "R13b:trees/redblacktree"),
			prefixFilter(c.rule("R21", ruleR21), "R21", "substrate red-black tree: insert/delete fix-up chains are wired on every path", 6, "R21:rbt."),
			prefixFilter(c.rule("R28", ruleR28), "R28", "substrate red-black tree: Remove replaces a node by its only child / hands over the in-order predecessor", 1, "R28:trees/redblacktree"),
			c.rule("R43", ruleR43), // the fix-up chains leave a red-black tree: a chain that rotates the wrong way round loses a subtree with the node it unlinks
		}
	case "dll":
		return []*RuleResult{
			prefixFilter(c.rule("R25", ruleR25), "R25", "substrate doubly linked list: next/prev are stored in pairs", 3, "R25:lists/doublylinkedlist"),
			prefixFilter(c.rule("R33", ruleR33), "R33", "substrate doubly linked list: index walks land on the requested element from either end", 3, "R33:lists/doublylinkedlist"),
			prefixFilter(c.rule("R12", ruleR12), "R12", "substrate doubly linked list: the size counter moves only with the chain", 3, "R12b:lists/doublylinkedlist", "R12c:lists/doublylinkedlist", "R12e:lists/doublylinkedlist"),
			prefixFilter(c.rule("R5", ruleR5), "R5", "substrate doubly linked list: index parameters are range-checked before use", 4, "R5a:lists/doublylinkedlist", "R5b:lists/doublylinkedlist"),
			prefixFilter(c.rule("R39", ruleR39), "R39", "substrate doubly linked list: removing an element keeps first/last on the real ends", 1, "R39:lists/doublylinkedlist"),
		}
	case "sll":
		return []*RuleResult{
			prefixFilter(c.rule("R33", ruleR33), "R33", "substrate singly linked list: index walks land on the requested element", 3, "R33:lists/singlylinkedlist"),
			prefixFilter(c.rule("R12", ruleR12), "R12", "substrate singly linked list: the size counter moves only with the chain", 3, "R12b:lists/singlylinkedlist", "R12c:lists/singlylinkedlist", "R12e:lists/singlylinkedlist"),
			prefixFilter(c.rule("R27", ruleR27), "R27", "substrate singly linked list: an emptied list resets the ends its operations rely on", 1, "R27:lists/singlylinkedlist"),
			prefixFilter(c.rule("R5", ruleR5), "R5", "substrate singly linked list: index parameters are range-checked before use", 4, "R5a:lists/singlylinkedlist", "R5b:lists/singlylinkedlist"),
			prefixFilter(c.rule("R39", ruleR39), "R39", "substrate singly linked list: removing an element keeps first/last on the real ends", 1, "R39:lists/singlylinkedlist"),
		}
	case "arraylist":
		return []*RuleResult{
			prefixFilter(c.rule("R30", ruleR30), "R30", "substrate array list: every method moves the length (= Size()) exactly as its meaning says", 25, "R30:lists/arraylist"),
			prefixFilter(c.rule("R5", ruleR5), "R5", "substrate array list: index parameters are range-checked before use", 4, "R5a:lists/arraylist", "R5b:lists/arraylist"),
			prefixFilter(c.rule("R40", ruleR40), "R40", "substrate array list: every operation leaves exactly the sequence it means (Add appends, Insert splices, Remove closes the gap, Set replaces one slot; everything else leaves it alone)", 20, "R40:lists/arraylist"),
		}
	}
	return nil
}

func withSubstrates(c *Ctx, own []*RuleResult, which ...string) []*RuleResult {
	out := append([]*RuleResult(nil), own...)
	for _, w := range which {
		out = mergeRules(out, substrate(c, w), "substrate ")
	}
	return out
}

// mergeRules adds the rule results of src to dst: one entry per rule name, obligations united by key, floors added when
// the source contributes new obligations.
func mergeRules(dst, src []*RuleResult, trim string) []*RuleResult {
	out := append([]*RuleResult(nil), dst...)
	for _, r := range src {
		if r.Rule == "R0" || r.Rule == "R0t" {
			continue // positive controls stay with the property that owns the rule
		}
		merged := false
		for i, o := range out {
			if o.Rule != r.Rule {
				continue
			}
			seen := map[string]bool{}
			for _, ob := range o.Obs {
				seen[ob.Key] = true
			}
			cp := *o
			cp.Obs = append([]Obligation(nil), o.Obs...)
			added := 0
			for _, ob := range r.Obs {
				if !seen[ob.Key] {
					cp.Obs = append(cp.Obs, ob)
					added++
				}
			}
			if added > 0 {
				// the floor of the union: what dst demanded plus what src demands of its own new obligations (at most their number)
				extra := r.Floor
				if extra > added {
					extra = added
				}
				cp.Floor = o.Floor + extra
				if !strings.Contains(cp.Title, strings.TrimPrefix(r.Title, trim)) && len(cp.Title) < 160 {
					cp.Title = o.Title + " + " + strings.TrimPrefix(r.Title, trim)
				}
			}
			out[i] = &cp
			merged = true
			break
		}
		if !merged {
			out = append(out, r)
		}
	}
	return out
}

// inherited: the rules of other properties whose containers' state this property observes (C11: every reachable state of
// every container must serialise and reload — a state that an operation has left inconsistent cannot).
func inherited(c *Ctx, own []*RuleResult, pids ...string) []*RuleResult {
	out := own
	for _, pid := range pids {
		out = mergeRules(out, properties[pid].run(c).Rules, "")
	}
	return out
}

func init() {
	properties["C01"] = propDef{run: func(c *Ctx) *PropertyRun {
		return pr("other", "Decided: (R12b–e) the cached size of every tree moves only with the structure — replace-on-equal paths of Put touch neither counter nor links and report 'nothing added', decrements are guarded by 'found', increments travel with allocate-and-link; (R11) every child-link store has its parent-link twin; (R10) the red-black rotations and fix-up arms are mirror images; (R15) LinkedHashMap table and order list gain/lose a key on the same paths; (R16) BidiMap pairing; (R24) HashMap is the Go map; (R20) TreeMap delegates each operation to the same-named tree operation; (R13a) every comparator-driven descent (Put, Get, Remove, lookup of all three trees) branches on the comparator's full int result with one orientation — lookups and insertions take the same way down (a narrowed or re-oriented verdict in one of them loses keys); (R32) the B-tree's hand-written slice surgery keeps its indices consistent: a shift by one opens a gap that is filled at that index after growing by one, or closes one before truncating by one, and a split partitions entries into [:k] / [k+1:] with entry k moving up and children divided at k+1; (R34) rotations preserve the in-order sequence of the subtree they re-hang (symbolic-heap replay of every path; catches mistakes that are symmetric in both directions, which the mirror rule cannot see); (R28) Remove replaces a node by one of its children only when the other is known nil, and a node with two children takes both key and value of its in-order neighbour, which is then the node unlinked (red-black Remove, AVL remove/removeMin); (R36) B-tree descents hop through the first or last child of the node they are on (or its search result) and delete replaces an internal entry by the last entry of the right-most leaf to its left, removing exactly that entry there, and the key it hands to rebalance locates that leaf under the key-searching sibling lookup (a successor's key, once moved up, resolves to the wrong side); (R37) a borrow/merge in rebalance addresses the parent entry between the node and the sibling it works with (left: the index leftSibling returned; right: rightSibling's index - 1), takes the sibling's adjacent end entry and deletes what it moved. (R42, R43) the rebalancing steps leave the invariants the next operation relies on: after every AVL rotation the stored balance factors are the height differences (a wrong factor makes a later fix rotate around a child that is not there), and every path of the red-black insert/delete chains leaves equal black heights and no red-red edge (a chain that takes the mirrored arm for the wrong side lifts the node about to be unlinked above its parent and the unlinking discards the parent's subtree: live keys are lost). Not decided: that a lookup after an arbitrary history finds the last value — the correctness of the red-black / AVL / B-tree algorithms themselves (which case fires for which shape); a recolouring mistake that keeps links, counters and mirror arms consistent is not detected."+notBehaviour,
			c.rule("R12", ruleR12), c.rule("R11", ruleR11), c.rule("R42", ruleR42), c.rule("R43", ruleR43),
			prefixFilter(c.rule("R10", ruleR10), "R10", "MIRROR: red-black rotations, fix-up arms, Put/lookup arms; AVL GetNode/put/remove arms", 13, "R10:trees/redblacktree.Tree.rotate", "R10:trees/redblacktree.Tree.insertCase", "R10:trees/redblacktree.Tree.deleteCase", "R10:trees/redblacktree.Tree.replaceNode", "R10:trees/redblacktree.Node.sibling", "R10:trees/redblacktree.Tree.Put", "R10:trees/redblacktree.Tree.lookup", "R10:trees/avltree.Tree.GetNode", "R10:trees/avltree.Tree.put", "R10:trees/avltree.Tree.remove"),
			prefixFilter(c.rule("R15", ruleR15), "R15", "LINKED: LinkedHashMap table ↔ order list", 5, "R15a:maps/linkedhashmap", "R15b:maps/linkedhashmap", "R15c:maps/linkedhashmap", "R15w:maps/linkedhashmap", "R15d:maps/linkedhashmap"),
			c.rule("R16", ruleR16), prefixFilter(c.rule("R24", ruleR24), "R24", "HASH: HashMap is the Go map", 5, "R24:maps/hashmap"), rolesFor(c, "C01"),
			prefixFilter(c.rule("R21b", ruleR21b), "R21b", "B-tree: rebalance is keyed by the node's own key; AVL: the fix routines report exactly whether the subtree's height changed and are told the side that changed (a wrong signal leaves stale factors above, and a later fix rotates through a child that is not there)", 3, "R21b:btree.rebalance-key", "R21b:avl."),
			prefixFilter(c.rule("R13", ruleR13), "R13", "ORDER: comparator-driven descents use one orientation and the full verdict", 10, "R13a:"), c.rule("R32", ruleR32), c.rule("R34", ruleR34), c.rule("R28", ruleR28), c.rule("R44", ruleR44), c.rule("R36", ruleR36), c.rule("R37", ruleR37),
			prefixFilter(c.rule("R21", ruleR21), "R21", "UNLINK: every path of the red-black Remove that found the key unlinks a node; the child that replaces the root is made black", 1, "R21:rbt.Remove"))
	}}
	properties["C02"] = propDef{run: func(c *Ctx) *PropertyRun {
		return pr("other", "Decided: (R13a) all 10 comparator-driven descents relate probe and stored key with one orientation (less → left/low, greater → right/high, equal → found); (R13b) keys are never compared with Go operators in comparator-ordered packages; (R20) Min/Max/Floor/Ceiling/Values/Keys delegate to the matching tree operation and (R38 unpack) return the found node's own key and value with true, the zero triple with false; (R10) Floor↔Ceiling, Left↔Right, Min↔Max, iterator Next↔Prev, rotations and fix-up arms are mirror images under μ. (R34) the three rotation primitives (red-black rotateLeft/rotateRight with replaceNode expanded, the AVL tree's direction-parameterised rotate in both directions) are replayed over a symbolic heap on every path: the in-order sequence of the rotated subtree is the same before and after and it has exactly one new root. (R12d, B-tree) a Put of a key that is already present — in a leaf or as a separator of an internal node — replaces that entry at the position the search reported, and the insertion descent continues below a node only knowing the key is not in it (equal keys are one key: Keys() stays strictly ascending). Not decided: that splits/merges/borrows of the B-tree and the successor/predecessor swaps of Remove preserve the in-order sequence; sortedness of Keys() as such; B-tree per-node binary-search bounds; behaviour under a comparator that is not a strict weak order."+notBehaviour,
			c.rule("R13", ruleR13), rolesFor(c, "C02"), c.rule("R10", ruleR10), c.rule("R11", ruleR11), c.rule("R29", ruleR29), c.rule("R34", ruleR34), c.rule("R28", ruleR28), c.rule("R36", ruleR36), c.rule("R37", ruleR37),
			prefixFilter(c.rule("R12", ruleR12), "R12", "ONEKEY: a B-tree Put of a key that is already present (in a leaf or as a separator in an internal node) replaces that entry — equal keys are one key, Keys() stays strictly ascending", 3, "R12d:trees/btree"), prefixFilter(c.rule("R38", ruleR38), "R38", "UNPACK: TreeMap Min/Max/Floor/Ceiling return the found node's key and value with true", 4, "R38:unpack:"),
			prefixFilter(c.rule("R21b", ruleR21b), "R21b", "B-tree: rebalance is keyed by the node's own key", 1, "R21b:btree.rebalance-key"))
	}}
	properties["C03"] = propDef{run: func(c *Ctx) *PropertyRun {
		return pr("other", "Decided: (R5a) every use of an index parameter of Get/Remove/Insert/Set/Swap on the three lists is dominated by withinRange(index)==true; (R5b) with an out-of-range index nothing is written except the documented append (a call to Add guarded by index == size); (R23w) withinRange ≡ 0 <= i < Size() on all three; (R7) an empty variadic list leaves no nil pointer to dereference; (R12b,c,e) the linked lists' size counters move only with allocate-and-link / guarded unlink; (R23s) Sort = SortFunc(Values(), comparator) then Clear; Add; (R23c) Contains(xs...) exactness; (R20) Append ≡ Add; (R30) the array list's length — its Size() — is replayed symbolically through every method: Add/Insert grow it by exactly len(values), Remove shrinks it by one, growBy(n) by n, resize(l, c) sets l, shrink/Sort/Swap/Set keep it, Clear zeroes it (reallocation thresholds cannot pad or truncate the sequence); (R33) every index-driven pointer walk of the linked lists keeps pos(pointer) = counter + d as a loop invariant (first ↦ 0, last ↦ size-1, next/prev ↦ ±1), walks from the head and from the tail land on the same positions relative to the index, and one pointer lands exactly on it; (R38) Swap exchanges the two requested positions crosswise with both values read first, Prepend's head insertion runs over the values from the last to the first, the array list's Insert splices (old contents, index, values), IndexOf reports the position it matched; (R39) a path that unlinks one element moves first/last exactly when the removed element is that end (a != comparison forbids the move, == demands it), and a path that links a new element into an empty list sets both ends; (R33) no walk starts at nil; (R23s) Sort leaves without sorting only a list of at most one element; (R44) no path reads or writes through the nil constant; (R40) the array list's contents are replayed as a symbolic sequence through every exported method, helpers expanded in place: Add leaves old ++ values, Insert old[:i] ++ values ++ old[i:], Remove old[:i] ++ old[i+1:], Set replaces slot i (or appends at i == len), Clear leaves nothing and every other method leaves the sequence alone — positions compared by linear arithmetic over the path's range checks; (R2b) no list retains a slice its caller handed in (Add/Insert/New copy the values: the element at an index changes only through the list); (R1) the reading operations write nothing (a Get that answers from a cursor remembered by an earlier Get is not the sequence the mutators left); (R46) New(values...) returns without handing over its values only on paths that know there are none. Not decided: that pointer surgery in the linked Insert/Remove yields the spliced sequence; traversal-direction arithmetic; array-list grow/shrink thresholds; IndexOf results."+notBehaviour,
			c.rule("R5", ruleR5), c.rule("R7", ruleR7), c.rule("R25", ruleR25), c.rule("R27", ruleR27), c.rule("R30", ruleR30), c.rule("R40", ruleR40), c.rule("R33", ruleR33), c.rule("R39", ruleR39), c.rule("R45", ruleR45), prefixFilter(c.rule("R46", ruleR46), "R46", "CTORVALUES: New(values...) of the three lists hands the values to the list unless there are none", 3, "R46:lists/"), prefixFilter(c.rule("R38", ruleR38), "R38", "LISTOPS: Swap exchanges crosswise, Prepend keeps the passed order, Insert splices at the index, IndexOf reports where it found the value", 8, "R38:swap:", "R38:prepend:", "R38:indexof:", "R38:insert:"),
			prefixFilter(c.rule("R12", ruleR12), "R12", "SIZE: linked-list counters", 6, "R12b:lists/", "R12c:lists/", "R12e:lists/"),
			prefixFilter(c.rule("R23", ruleR23), "R23", "LISTS: Contains, Sort, withinRange of the three lists", 9, "R23c:lists/", "R23s:lists/", "R23w:lists/"),
			prefixFilter(c.rule("R2b", ruleR2b), "R2b", "OWNED: a list keeps no slice a caller handed in (an element at index i changes only through the list)", 12, "R2b:lists/"),
			prefixFilter(c.rule("R44", ruleR44), "R44", "NILDEREF: no path reads or writes through the nil constant (a pointer variable no path assigns)", 1, "R44:nilconst"),
			filter(c.rule("R1", ruleR1), "R1", "PURE: the reading operations of the three lists (Get, IndexOf, Contains, Values, Size, …) write nothing — what Get(i) reports is position i of the sequence as the mutators left it, not a memo of an earlier read", 40, func(o Obligation) bool {
				return strings.HasPrefix(o.Key, "R1:lists/") && strings.Contains(o.Key, ".(*List).")
			}),
			rolesFor(c, "C03"))
	}}
	properties["C04"] = propDef{run: func(c *Ctx) *PropertyRun {
		return pr("other", "Decided: (R15) LinkedHashSet's table and order list gain/lose a member on exactly the same paths, with the membership test inside the loop (a duplicate inside one Add call is covered); (R24) HashSet.Add/Remove are one Go-map assignment/delete per argument; (R20) TreeSet delegates Add→Put, Remove→Remove, Contains→Get, Size→Size, Values→Keys, Clear→Clear; (R23c) Contains(xs...) of all three sets advances only after a hit, returns false only after a miss and true only when all values were found (true for no arguments); (R12f) Empty/Size/Values length derive from one size term; (R13b) TreeSet never orders or equates elements with Go operators (`<`, `==` call NaN equal to everything / unequal to itself) — only through the comparator, and its default comparator is cmp.Compare; the same holds for the red-black tree that stores it, whose Put/lookup/Floor/Ceiling descents (R13a) decide 'same member' by the comparator's == 0 alone; (R46) the constructors New(values...) / NewWith(cmp, values...) return without handing over their values only on paths that know there are none. Not decided: Go map semantics (trusted); TreeSet inherits C01's remainder. Inherited (substrate): TreeSet is stored in a red-black tree and LinkedHashSet's order in a doubly linked list — the structural clauses of those two (parent links, mirror arms, rotations' in-order preservation, fix-up wiring, size counters, comparator discipline; next/prev pairing, index walks, index guards) are part of this check."+notBehaviour,
			withSubstrates(c, []*RuleResult{
				prefixFilter(c.rule("R15", ruleR15), "R15", "LINKED: LinkedHashSet table ↔ order list", 5, "R15a:sets/linkedhashset", "R15b:sets/linkedhashset", "R15c:sets/linkedhashset", "R15w:sets/linkedhashset", "R15d:sets/linkedhashset"),
				prefixFilter(c.rule("R24", ruleR24), "R24", "HASH: HashSet is the Go map", 2, "R24:sets/hashset"),
				prefixFilter(c.rule("R46", ruleR46), "R46", "CTORVALUES: New(values...) / NewWith(cmp, values...) of the three sets hand the values to the set unless there are none", 3, "R46:sets/"),
				prefixFilter(c.rule("R12g", ruleR12g), "R12g", "CLEAR: Clear of the three sets leaves nothing behind (a fresh table / Clear of every inner container — not a key-by-key delete, which cannot remove a member that is not equal to itself)", 3, "R12clear:sets/"),
				filter(c.rule("R2d", ruleR2d), "R2d", "SEPARATE: a set handed out by Union/Intersection/Difference/Select/Map shares no storage with its operands (an Add or Remove on one set is never an Add or Remove on another)", 9, func(o Obligation) bool {
					return strings.HasPrefix(o.Key, "R2d:sets/")
				}),
				prefixFilter(c.rule("R23", ruleR23), "R23", "MEMBERSHIP: Contains(xs...) of the three sets", 3, "R23c:sets/"),
				prefixFilter(c.rule("R12", ruleR12), "R12", "SIZE: Empty/Size/Values of the three sets", 6, "R12f:sets/"),
				prefixFilter(c.rule("R13", ruleR13), "R13", "ORDER: TreeSet and the red-black tree under it never compare elements with Go operators; the tree's descents use the comparator's full verdict with one orientation", 5, "R13b:sets/treeset", "R13b:trees/redblacktree", "R13a:trees/redblacktree"),
				rolesFor(c, "C04"),
			}, "rbt", "dll")...)
	}}
	properties["C05"] = propDef{run: func(c *Ctx) *PropertyRun {
		return pr("other", "Decided: (R19a) each stack pushes and pops at the same end of its list, each queue enqueues at the tail and dequeues at the head, Peek and Pop/Dequeue read the same index and Pop/Dequeue removes the index it read; (R19b-step) the ring's Enqueue and Dequeue replayed path by path with helpers expanded and field loads dated by version: the slot at the old end is written, end advances with its wrap, start advances with its wrap exactly when size == capacity, full ends true iff the new end meets start; Dequeue leaves an empty ring alone, else returns the slot at the old start, advances start with its wrap and clears full; (R19b) ring, shape clauses where the replay gives no verdict and for all other methods: every advance of start/end is paired with its wrap on every path, the ring slice is indexed only through start/end/(start+i)%capacity, Enqueue on a full ring evicts before writing and never otherwise, Dequeue/Peek on an empty ring change nothing and return (zero,false); (R12f) Full() ≡ Size()==capacity, Empty ≡ Size()==0; (R12b,c) the ring's size; (R20) the adapters' Size/Empty/Clear/Values delegate to the list; (R30) the array list under ArrayStack and ArrayQueue never pads or truncates (length algebra of C03); (R19a-values) Values() is the list's order for head removal and its exact reverse for tail removal. Not decided: the order of values as such (list semantics, C03's remainder); calculateSize arithmetic; agreement of ArrayStack.Values() order with removal order (reversed fill needs affine index reasoning). Inherited (substrate): the array list under ArrayStack/ArrayQueue/(heap) and the singly linked list under LinkedListStack/LinkedListQueue — length algebra and index guards; index walks, size counter, reset of the ends on emptying."+notBehaviour,
			withSubstrates(c, []*RuleResult{
				c.rule("R19", ruleR19), c.rule("R27", ruleR27), prefixFilter(c.rule("R30", ruleR30), "R30", "LENGTH: the array list under ArrayStack and ArrayQueue", 25, "R30:lists/arraylist"),
				prefixFilter(c.rule("R12", ruleR12), "R12", "SIZE: ring counter, Full/Empty/Values of stacks and queues", 16, "R12b:queues/circularbuffer", "R12c:queues/circularbuffer", "R12e:queues/circularbuffer", "R12f:queues/", "R12f:stacks/"),
				rolesFor(c, "C05"),
			}, "arraylist", "sll")...)
	}}
	properties["C06"] = propDef{run: func(c *Ctx) *PropertyRun {
		return pr("other", "Decided: (R8) the loaders of BinaryHeap and PriorityQueue insert through the heap's own insertion path (Push re-heapifies) — the defect named in the property; (R22) Peek reads slot 0; Pop returns slot 0 read before Swap(0,n-1); Remove(n-1); bubbleDown and leaves an empty heap alone; Push(v) = Add; bubbleUp and Push(vs...) = Add*; bubbleDownIndex(i) for i from n/2 down to 0; the sift routines swap only on a comparator verdict and follow the element they move; Values() is filled from the heap's own iterator; the queue's heap is built with the queue's comparator; (R20) PriorityQueue delegates every operation to the heap; (R13b) neither package compares elements with Go operators — their default comparator is cmp.Compare, not a hand-written `<`/`>` that calls NaN equal to everything; (R30) the array list that stores the heap never pads or truncates its contents (length algebra of C03); (R41) the geometry of the sift routines round by round: children 2i+1 / 2i+2 each looked at only below the heap's own size, the smaller child chosen, a swap only knowing cmp(slot, child) > 0 and continuing there, a stop only knowing that no child exists or that the slot is in order with its smaller child; sift-up from size-1 through (i-1)/2 with the mirror conditions. (R14, R1) iteration exposes the live contents: the heap's iterator follows the cursor protocol, the priority queue's iterator forwards every method to it, and neither keeps anything but its cursor (an iterator that serves Value() from a remembered Values() shows removed elements after a Dequeue+Enqueue). Not decided: that these local conditions add up to the heap order for every history (the induction over the tree is not carried out), multiset preservation, level-sorted iterator values. Inherited (substrate): the array list that stores the heap — length algebra and index guards."+notBehaviour,
			withSubstrates(c, []*RuleResult{
				prefixFilter(c.rule("R8", ruleR8), "R8", "LOADER: heap / priority-queue FromJSON", 6, "R8:trees/binaryheap", "R8a:trees/binaryheap", "R8b:trees/binaryheap", "R8c:trees/binaryheap", "R8d:trees/binaryheap", "R8e:trees/binaryheap", "R8:queues/priorityqueue", "R8e:queues/priorityqueue"),
				filter(c.rule("R22", ruleR22), "R22", "HEAP: Push/Pop/Peek use the root slot and hand every change to the sift routines", 6, func(o Obligation) bool { return !strings.HasPrefix(o.Key, "R22s:") }), c.rule("R41", ruleR41), rolesFor(c, "C06"),
				prefixFilter(c.rule("R13", ruleR13), "R13", "ORDER: heap and priority queue never compare elements with Go operators, only through the comparator", 2, "R13b:trees/binaryheap", "R13b:queues/priorityqueue"),
				prefixFilter(c.rule("R30", ruleR30), "R30", "LENGTH: the array list that stores the heap", 25, "R30:lists/arraylist"),
				filter(c.rule("R14", ruleR14), "R14", "ITERATION: the heap's iterator follows the cursor protocol and the priority queue's iterator is a pure wrapper of it (iteration exposes the live contents, first element = Peek)", 19, func(o Obligation) bool {
					return strings.Contains(o.Key, ":trees/binaryheap.Iterator") || strings.Contains(o.Key, ":queues/priorityqueue.Iterator")
				}),
				prefixFilter(c.rule("R1", ruleR1), "R1", "ITERATION: the iterators of heap and priority queue write nothing but their own cursor (no memo of an earlier pass)", 20, "R1:trees/binaryheap.(*Iterator)", "R1:queues/priorityqueue.(*Iterator)"),
			}, "arraylist")...)
	}}
	properties["C07"] = propDef{run: func(c *Ctx) *PropertyRun {
		return pr("other", "Decided: (R11) parent links mirror child links — a sentence of the statement itself: every child-link store in the three trees is paired with the parent-link store on the same path; (R21) the rebalancing machinery is wired on every path: red-black Put/Remove pass insertCase1/deleteCase1, the case chains hand over without dropping out; AVL balance factors are written only by the fix/rotation family, direct link changes report 'height changed', every reported change is answered by putFix/removeFix on the frame's own link and passed up, rotations are stored back; B-tree nodes that gained an entry go to split, nodes that lost one go to rebalance (or are a lending sibling / the collapsing root), borrow and merge move children with entries; (R32) insert/delete shifts and the split partition keep their indices consistent (no entry or child lost or duplicated); (R35) no path overwrites a field with a constant and then reads it back as the value to transfer (the colour hand-over `sibling.color = parent.color; parent.color = black` in the wrong order) — zero sites expected, guarded by a positive control; (R21 skeletons) the red-black insert/delete fix-ups with every case expanded: each path continues, absorbs or restructures only on the colour knowledge the algorithm prescribes, and Remove recolours the spliced child only at the root; (R42) after every rebalancing rotation of the AVL tree the stored balance factor of each touched node equals the height difference of its subtrees (symbolic-heap replay of putFix/removeFix in both directions, heights derived from the factors the path knows), on the paths without rotation the factor moves by c (0 → c, -c → 0), a node leaning towards c is rotated, and the height signal is 'grew' only from 0 (putFix) / 'shrank' only from -c (removeFix); a fix-up after a recursive change under Children[i] is told the right side; (R43) every path of the expanded red-black insert / delete case chains, replayed over an abstract tree built from the nodes and colours the path looks at, leaves equal black heights on both sides of every node it touched, the region's black height as it was (deletion: as it was meant to be), no red node with a red child, and hands exactly the expected defect to the chain's entry when it recurses — given a red-black tree with the one defect the chain repairs. Not decided: every numeric claim as such — comparator-call bounds, height bounds, min/max occupancy, equal leaf depth (R42/R43 are the inductive steps for balance factors and colours, not the induction nor the bound that follows from it); these quantify over reachable shapes and no sound static argument in reach bounds them."+notBehaviour,
			c.rule("R21", ruleR21), c.rule("R21b", ruleR21b), c.rule("R42", ruleR42), c.rule("R43", ruleR43), c.rule("R11", ruleR11), c.rule("R32", ruleR32), c.rule("R35", ruleR35), c.rule("R37", ruleR37), controlFor(c, "R35"))
	}}
	properties["C08"] = propDef{run: func(c *Ctx) *PropertyRun {
		return pr("other", "Decided: (R14) all 18 iterator types follow the cursor protocol: index cursors step exactly when inside the bound and saturate at n / -1, report true exactly when the new index is in 0..n-1, Begin/End store -1/n, linked cursors keep the element pointer in step, wrappers forward, tree cursors start at leftmost/rightmost and saturate at their sentinels, First ≡ Begin;Next, Last ≡ End;Prev, NextTo/PrevTo are the canonical search loop over (Index|Key, Value); (R10) Next↔Prev, First↔Last, NextTo↔PrevTo mirror images; (R11) the Parent links tree cursors climb; (R1) Index/Key/Value write nothing, movers write only the iterator; (R19b-index) the ring iterator's Value() reads the slot (start+index) % capacity — the same slot Values() lists at that position. Not decided: that the element reached at position i is Values()[i] for the other containers; B-tree climb/descend index logic; heap level-sort."+notBehaviour,
			c.rule("R14", ruleR14), c.rule("R29", ruleR29), ringIndexRule(c),
			prefixFilter(c.rule("R10", ruleR10), "R10", "MIRROR: iterator Next/Prev, First/Last, NextTo/PrevTo", 32, "R10:trees/redblacktree.Iterator", "R10:trees/avltree.Iterator", "R10:trees/avltree.Node", "R10:lists/", "R10:maps/", "R10:queues/", "R10:sets/", "R10:stacks/", "R10:trees/binaryheap", "R10:trees/btree.Iterator"),
			prefixFilter(c.rule("R11", ruleR11), "R11", "PARENTLINK: the links tree cursors climb", 26, "R11:"),
			filter(c.rule("R1", ruleR1), "R1", "PURE: iterator methods write only the iterator", 150, func(o Obligation) bool { return strings.Contains(o.Key, "Iterator).") }),
			prefixFilter(c.rule("R22", ruleR22), "R22", "HEAP: Values() is filled from the heap's own iterator, position by position (so Value() at position i is Values()[i])", 1, "R22:trees/binaryheap.Heap.Values"),
			prefixFilter(c.rule("R41", ruleR41), "R41", "HEAP: the iterator orders a level with the heap's own comparator", 1, "R41:trees/binaryheap.Iterator.level-order"),
			prefixFilter(c.rule("R36", ruleR36), "R36", "EXTREME: B-tree descents — the iterator's and the helpers it calls — hop through the first / last child of the node they are on (each node has its own number of children)", 3, "R36:hop:"))
	}}
	properties["C09"] = propDef{run: func(c *Ctx) *PropertyRun {
		return pr("other", "Decided in full as a who-may-call / pairing property: (R15a) the order list is mutated only by Append under 'key not in table', Remove(IndexOf(key)) under 'key in table' together with delete(table,key), and Clear together with clearing the table — so an existing key is never moved and a re-inserted key goes last; (R15b) table and list change on exactly the same paths; (R15c) every enumerator (Keys, Values, iterator, Each…, String, ToJSON) walks the list and never ranges over the Go map; (R15w) the two fields are assigned only in constructors/Clear; of the order list itself (a doubly linked list): (R33) its index walks keep pointer and counter in step and land on the requested index from either end, (R25) next/prev are stored in pairs. (R9b) ToJSON of both containers writes its members from the order list — the Go map is never handed to the encoder (encoding/json sorts map keys). Not decided: the rest of doublylinkedlist.Append/Remove/IndexOf (C03's remainder). Inherited (substrate): the doubly linked list that keeps the order — next/prev pairing, index walks, size counter, index guards."+notBehaviour,
			withSubstrates(c, []*RuleResult{
				c.rule("R15", ruleR15),
				prefixFilter(c.rule("R33", ruleR33), "R33", "WALK: the order list's index walks (Remove(IndexOf(key)) unlinks the element at that index)", 3, "R33:lists/doublylinkedlist"),
				prefixFilter(c.rule("R25", ruleR25), "R25", "DLINK: the order list's next/prev links are stored in pairs", 3, "R25:lists/doublylinkedlist"),
				filter(c.rule("R1", ruleR1), "R1", "PURE: the enumerating operations of the linked hash containers (Keys, Values, Each, iterators, …) write nothing — what they report is the order list as the mutators left it, not a copy of their own", 20, func(o Obligation) bool {
					return strings.HasPrefix(o.Key, "R1:maps/linkedhashmap.(*Map).") || strings.HasPrefix(o.Key, "R1:sets/linkedhashset.(*Set).")
				}),
				prefixFilter(c.rule("R9", ruleR9), "R9", "ENUMERATION BY ToJSON: the JSON form of the linked hash containers is written from the order list (iterator / Values()), never by handing the Go map to the encoder, which sorts keys", 2, "R9b:maps/linkedhashmap", "R9b:sets/linkedhashset"),
			}, "dll")...)
	}}
	properties["C10"] = propDef{run: func(c *Ctx) *PropertyRun {
		return pr("other", "Decided: (R16) for both BidiMaps, on every path of Put the pair held by the key is evicted from the inverse map by the looked-up value and the pair holding the value is evicted from the forward map by the looked-up key, exactly when the respective lookup found something, and both evictions precede both insertions (key→value forward, value→key inverse); Remove deletes both directions in one found-guarded region, the inverse one keyed by the looked-up value, and does nothing for an absent key; Clear clears both; Get/Size/Keys read the forward map, GetKey/Values the inverse map; (R8) their loaders insert through Put; of the red-black tree that carries both directions of TreeBidiMap: (R11) every child-link store has its parent-link twin and (R10) the rotations are mirror images (a stale Parent makes Remove and enumeration disagree with Get/GetKey). Not decided: the rest of the underlying map/tree correctness (C01's remainder). Inherited (substrate): the red-black tree that carries both directions of TreeBidiMap — parent links, mirror arms, rotations' in-order preservation, fix-up wiring, size counter, comparator discipline."+notBehaviour,
			withSubstrates(c, []*RuleResult{
				c.rule("R16", ruleR16),
				prefixFilter(c.rule("R17", ruleR17), "R17", "ENUM: TreeBidiMap's Map/Select build their result through Put (the outputs of a non-injective function must evict)", 2, "R17:maps/treebidimap.(*Map).Map", "R17:maps/treebidimap.(*Map).Select"),
				prefixFilter(c.rule("R11", ruleR11), "R11", "PARENTLINK: the red-black tree under both directions of TreeBidiMap", 8, "R11:trees/redblacktree"),
				prefixFilter(c.rule("R10", ruleR10), "R10", "MIRROR: red-black rotations under TreeBidiMap", 1, "R10:trees/redblacktree.Tree.rotate"),
				prefixFilter(c.rule("R8", ruleR8), "R8", "LOADER: BidiMap FromJSON inserts through Put", 10, "R8:maps/hashbidimap", "R8a:maps/hashbidimap", "R8b:maps/hashbidimap", "R8c:maps/hashbidimap", "R8d:maps/hashbidimap", "R8:maps/treebidimap", "R8a:maps/treebidimap", "R8b:maps/treebidimap", "R8c:maps/treebidimap", "R8d:maps/treebidimap"),
			}, "rbt")...)
	}}
	properties["C11"] = propDef{run: func(c *Ctx) *PropertyRun {
		return pr("other", "Decided: (R9a) all 42 MarshalJSON/UnmarshalJSON are pure forwarders to ToJSON/FromJSON; (R9b) ToJSON serialises the logical view (Values(), the own iterator, a storage field that Values() copies, or the field FromJSON/Size delegate to) — never physical storage whose meaning needs other fields; (R9c) writer and reader use the same JSON kind and it is the kind the property assigns; (R9d) the slice handed to json.Marshal is never nil (an empty value container is [], not null); (R9e) hand-written objects use string keys; (R9f) the raw input of FromJSON reaches only the JSON decoder; (R8e) a forwarding loader is sound for its type; (R19b-index) the ring's Values() — what its ToJSON marshals — reads the slots (start+i) % capacity; (R22s) the heap's sift routines exchange two elements only on a strict comparator verdict, so re-heapifying the serialized array of a heap — which is what the loader does — moves nothing and the loaded heap is the saved one, also among elements that compare equal. Not decided: equality of the reloaded contents (follows from C01–C06 + R8 only informally); element encodability. Inherited: every reachable state must round-trip, so the structural clauses that keep the containers' states consistent (all rules of C01, C03, C04, C05, C06, C09, C10: size counters, link pairing, table/list and forward/inverse pairing, heap protocol, ring indices, length algebra, walks, splits, rotations, unlinking) are part of this check — a state an operation left inconsistent cannot serialise and reload to an equivalent container."+notBehaviour,
			inherited(c, []*RuleResult{c.rule("R9", ruleR9), c.rule("R8", ruleR8), ringIndexRule(c),
				prefixFilter(c.rule("R22", ruleR22), "R22s", "HEAP: re-heapifying the serialized heap reproduces it (sift routines exchange elements only on a strict verdict)", 2, "R22s:")}, "C01", "C03", "C04", "C05", "C06", "C09", "C10")...)
	}}
	properties["C12"] = propDef{run: func(c *Ctx) *PropertyRun {
		return pr("other", "Decided: for all 21 FromJSON — loaders decode into a fresh temporary, never live memory (R8a: atomic on error, replace not merge); every write to the receiver is guarded by err == nil (R8b); the receiver's Clear dominates every insertion (R8c: no prior element survives); elements enter only through the container's own exported insertion methods (R8d: sets deduplicate, trees sort, BidiMaps stay one-to-one, the ring keeps the last capacity-many, the heap re-heapifies — by the guarantees of those methods); forwarding loaders are sound because every insertion method of the type is a pure forwarder to the same field (R8e); (R6) a Go-map field that is assigned to can never become nil (the input null cannot make a later Put panic). and the insertion methods themselves carry their structural clauses here (R22 Push re-heapifies the whole heap, R19b the ring's Enqueue, R16put the BidiMaps' Put, R15a/b the linked hash containers, R24 the hash containers, R30 the array list's Add; for Push the heapify start is computed from the size after the path's own appends); (R9f) what the input denotes for the insertion-ordered map includes the order of its members — its loader hands the raw input only to the JSON decoder (a text search cannot tell a key from equal text elsewhere; a search is identified by what it looks for, so the recorded finding F7 does not cover a differently built needle). Not decided: arbitrary follow-up operation sequences beyond 'inserted through the own insertion method' (then C01/C04 apply)."+notBehaviour,
			c.rule("R8", ruleR8), c.rule("R6", ruleR6), controlFor(c, "R6", "R8"),
			// the insertion paths the loaders rely on (R8d hands every decoded element to them)
			prefixFilter(c.rule("R22", ruleR22), "R22", "insertion path of the heap loaders: Push appends and re-heapifies the whole heap", 1, "R22:trees/binaryheap.Heap.Push"),
			prefixFilter(c.rule("R19", ruleR19), "R19", "insertion path of the ring loader: Enqueue wraps, evicts and keeps the size in step", 5, "R19b-"),
			prefixFilter(c.rule("R16", ruleR16), "R16", "insertion path of the BidiMap loaders: Put keeps the map one-to-one", 2, "R16put:"),
			prefixFilter(c.rule("R15", ruleR15), "R15", "insertion path of the linked hash loaders: table and order list gain a key together", 4, "R15a:", "R15b:"),
			prefixFilter(c.rule("R24", ruleR24), "R24", "insertion path of the hash loaders: Put/Add are the Go-map assignment", 2, "R24:maps/hashmap.(*Map).Put", "R24:sets/hashset.(*Set).Add"),
			prefixFilter(c.rule("R30", ruleR30), "R30", "insertion path of the array-backed loaders: Add grows the list by exactly the added values", 1, "R30:lists/arraylist.(*List).Add"),
			// what the input denotes for the insertion-ordered map includes the order of its members: recovered by the decoder,
			// not by searching the text (finding F7 is this clause on today's tree)
			prefixFilter(c.rule("R9", ruleR9), "R9", "ORDER OF THE DOCUMENT: the insertion-ordered map's loader hands its raw input only to the JSON decoder; json.Unmarshal reaches the loader: every UnmarshalJSON is a pure forwarder to FromJSON (no input, null included, is answered without it)", 22, "R9f:maps/linkedhashmap", "R9a:"))
	}}
	properties["C13"] = propDef{run: func(c *Ctx) *PropertyRun {
		return pr("other", "Decided: (R18) for the three sets, Intersection has one loop per operand that adds the current element iff the other operand contains it (both arms, selected by comparing sizes), Union adds every element of both operands in two consecutive loops, Difference adds an element of the receiver iff the argument does not contain it; membership is tested on the right operand with the current element; the result is built by the set's constructor (TreeSet: with the operands' comparator, loops reachable only after the comparators were found identical); (R1) neither operand is written on any path — in particular when both are the same object; (R2d) the result embeds no pointer, slice or map of an operand. Not decided: membership exactness beyond the arm structure (rests on Contains/Add, C04). Inherited: the set operations are built from the sets' own Add/Contains/iteration — all clauses of C04 (including the red-black tree and the order list under TreeSet and LinkedHashSet) are part of this check."+notBehaviour,
			inherited(c, []*RuleResult{
				c.rule("R18", ruleR18), c.rule("R2d", ruleR2d),
				filter(c.rule("R1", ruleR1), "R1", "PURE: set algebra writes no operand", 9, func(o Obligation) bool {
					return strings.HasSuffix(o.Key, ").Intersection") || strings.HasSuffix(o.Key, ").Union") || strings.HasSuffix(o.Key, ").Difference")
				}), controlFor(c, "R1", "R2d"),
			}, "C04")...)
	}}
	properties["C14"] = propDef{run: func(c *Ctx) *PropertyRun {
		return pr("other", "Decided: (R17) all 48 enumerable functions are the canonical loop over the receiver's own iterator: one Next() per round, f receives exactly (Index()|Key(), Value()) of the current position, Each continues unconditionally, Any/All decide at the first hit/miss, Find returns the current pair at the first hit and (-1|zero, zero) otherwise, Select inserts the current pair iff f accepted it, Map inserts f's result, and the derived container is built with the receiver's comparator(s) in role order; (R1) the receiver is never written; (R2d) the result shares no state with it. Not decided: the containers' own insertion semantics (C01/C03/C04). Inherited: the enumerable functions walk the containers' own iterators — the cursor protocol of C08 (all 18 iterator types) is part of this check."+notBehaviour,
			inherited(c, []*RuleResult{
				c.rule("R17", ruleR17), c.rule("R2d", ruleR2d),
				filter(c.rule("R1", ruleR1), "R1", "PURE: enumerable functions write nothing shared", 48, func(o Obligation) bool {
					for _, m := range []string{").Each", ").Any", ").All", ").Find", ").Select", ").Map"} {
						if strings.HasSuffix(o.Key, m) {
							return true
						}
					}
					return false
				}),
			}, "C08")...)
	}}
	properties["C15"] = propDef{run: func(c *Ctx) *PropertyRun {
		return pr("other", "Decided: (R12f) on all 21 containers Empty() ≡ Size()==0, Full() ≡ Size()==capacity and the slice returned by Values()/Keys() is allocated with length Size() — all derive from one size term after forwarder inlining; (R12b–e) the six cached counters take only the forms old±1, old+len, 0, recomputation; decrements are guarded by success (never negative), increments travel with allocate-and-link; (R12cfg) comparator / B-tree order / ring capacity are written only while constructing a fresh container, so Clear keeps them; (R12clear) Clear resets what Size() and the traversal start from and forwards to Clear of every contained container; (R12str) String() starts with the container's documented name; (R1) every observer is pure. Not decided: 'behaves exactly like a fresh one after Clear' beyond those resets (requiring every field to be reset would alarm on benign edits — DESIGN §5). Inherited: Size/Empty/Values/Keys agree only on consistent states — the structural clauses of C01, C03, C04, C05, C06, C09, C10 that keep every container's state consistent are part of this check."+notBehaviour,
			inherited(c, []*RuleResult{
				c.rule("R12", ruleR12), c.rule("R12g", ruleR12g), c.rule("R16", ruleR16), c.rule("R30", ruleR30),
				filter(c.rule("R1", ruleR1), "R1", "PURE: Size/Empty/Values/Keys/String write nothing", 99, func(o Obligation) bool {
					for _, m := range []string{").Size", ").Empty", ").Values", ").Keys", ").String", ").Full"} {
						if strings.HasSuffix(o.Key, m) {
							return true
						}
					}
					return false
				}),
			}, "C01", "C03", "C04", "C05", "C06", "C09", "C10")...)
	}}
	properties["C16"] = propDef{run: func(c *Ctx) *PropertyRun {
		return pr("proof", "Decides the aliasing sentences completely modulo the trusted base: Values()/Keys() of all containers return a slice allocated by the call that is neither rooted in nor retained by any parameter/global (R2a); no exported function retains a caller's slice argument in container memory, a global or its result (R2b); the slice GetSortedValues[Func] sorts is fresh for the CHA join of all Values() implementations and the functions write nothing else (R2c, R1). Not decided: that the output is sorted (contract of slices.Sort, trusted).",
			c.rule("R2a", ruleR2a), c.rule("R2b", ruleR2b), c.rule("R2c", ruleR2c),
			filter(c.rule("R1", ruleR1), "R1", "PURE: GetSortedValues[Func] write nothing", 2, func(o Obligation) bool {
				return o.Key == "R1:containers.GetSortedValues" || o.Key == "R1:containers.GetSortedValuesFunc"
			}), controlFor(c, "R2a", "R2b", "R2c"))
	}}
	properties["C17"] = propDef{run: func(c *Ctx) *PropertyRun {
		return pr("other", "Decided: (R3) no library function can reach fmt.Print*/print/println/log/os.Stdout/os.Stderr — complete for the silence clause; (R4) explicit panics/exits exist only in the two documented constructors, guarded by the documented bound — complete for explicit panics; (R5a) every index parameter of the three lists is range-checked before use; (R6) a Go-map field that is assigned to can never be nil; (R7) an empty variadic list leaves no nil pointer to dereference; (R8a) the JSON decoder never writes live container state (it cannot corrupt it into a panicking one); (R19b-wrap/index) in every method of the ring, loaders included, start and end are only reset to 0 or advanced with their wrap, and the ring slice is indexed only by them or modulo the capacity — no index can leave the slice; (R31) the arbitrary byte string given to the 42 loaders is only handed to the standard library or another loader, never indexed or sliced by library code; (R44) the result of a helper that answers nil exactly for a nil argument (maximumNode) is dereferenced only where the argument is known non-nil, and no path reads or writes through the nil constant; (R38 swap) the linked lists' pick-while-counting Swap is entered only knowing i != j (equal indices would send the walk off the end). Not decided: implicit panics that depend on heap-shape invariants (nil sibling in deleteCase*, Children[index] in the B-tree — a generic may-be-nil analysis drowns in false alarms there and a sound one needs the tree invariants); termination of the loops. Inherited: an operation on an inconsistent state dereferences nil or indexes out of range — the structural clauses that keep every container and iterator consistent (C01, C03–C06, C08–C10) are part of this check."+notBehaviour,
			inherited(c, []*RuleResult{
				c.rule("R3", ruleR3), c.rule("R4", ruleR4), c.rule("R5", ruleR5), c.rule("R6", ruleR6), c.rule("R7", ruleR7),
				prefixFilter(c.rule("R8", ruleR8), "R8", "LOADER: the decoder never targets live state (R8a)", 14, "R8a:"), prefixFilter(c.rule("R21b", ruleR21b), "R21b", "AVL direction arguments / child indices are 0/1, ±1", 1, "R21b:avl.directions"),
				prefixFilter(c.rule("R19", ruleR19), "R19", "RING: start/end stay below capacity in every method (wrap), and the ring slice is indexed only through them", 2, "R19b-wrap:", "R19b-index:"), c.rule("R31", ruleR31), c.rule("R44", ruleR44), prefixFilter(c.rule("R38", ruleR38), "R38", "SWAP: the linked lists' Swap picks both elements (equal indices cannot send the walk off the end)", 3, "R38:swap:"), controlFor(c, "R3", "R4", "R6", "R7", "R8"),
			}, "C01", "C03", "C04", "C05", "C06", "C09", "C10", "C08")...)
	}}
	properties["C18"] = propDef{run: func(c *Ctx) *PropertyRun {
		return pr("proof", "Decides the property completely modulo the trusted base: a conservative interprocedural effect/alias analysis (E1) over go/ssa shows that every read-only operation of every container, node and iterator type performs no store into container/node memory, into an iterator it did not create, or into a global, on any path and for all inputs; by the Go memory model (a data race needs a write) concurrent readers cannot race, and each call's result is a function of memory nobody writes. R1b: every call through a func value passes only opaque elements; R1c: iterators are never stored in shared memory; A5 scan: no unsafe/cgo/linkname.",
			c.rule("R1", ruleR1), c.rule("R1b", ruleR1b), c.rule("R1c", ruleR1c), controlFor(c, "R1", "R1b", "R1c"))
	}}
}
