package main

// props_defs.go — the 18 properties.

func init() {
	properties["C18"] = propDef{run: func(c *Ctx) *PropertyRun {
		return &PropertyRun{Level: "proof", Trusted: trustedBase, Assume: commonAssumptions,
			Rules: []*RuleResult{c.rule("R1", ruleR1), c.rule("R1b", ruleR1b), c.rule("R1c", ruleR1c)},
			Explain: "Decides the property completely modulo the trusted base: a conservative interprocedural effect/alias analysis (E1) over go/ssa shows that every read-only operation of every container, node and iterator type performs no store into container/node memory, into an iterator it did not create, or into a global, on any path and for all inputs; by the Go memory model (a data race needs a write) concurrent readers cannot race, and each call's result is a function of memory nobody writes. R1b: every call through a func value passes only opaque elements; R1c: iterators are never stored in shared memory."}
	}}
	properties["C16"] = propDef{run: func(c *Ctx) *PropertyRun {
		return &PropertyRun{Level: "proof", Trusted: trustedBase, Assume: commonAssumptions,
			Rules: []*RuleResult{c.rule("R2a", ruleR2a), c.rule("R2b", ruleR2b), c.rule("R2c", ruleR2c),
				filter(c.rule("R1", ruleR1), "R1", "PURE: GetSortedValues[Func] write nothing", 2, func(o Obligation) bool {
					return o.Key == "R1:containers.GetSortedValues" || o.Key == "R1:containers.GetSortedValuesFunc"
				})},
			Explain: "Decides the aliasing sentences completely modulo the trusted base: Values()/Keys() of all containers return a slice allocated by the call that is neither rooted in nor retained by any parameter/global (R2a); no exported function retains a caller's slice argument in container memory, a global or its result (R2b); the slice GetSortedValues[Func] sorts is fresh for the CHA join of all Values() implementations and the functions write nothing else (R2c, R1). Not decided: that the output is sorted (contract of slices.Sort, trusted)."}
	}}
	properties["C13"] = propDef{run: func(c *Ctx) *PropertyRun {
		return &PropertyRun{Level: "other", Trusted: trustedBase, Assume: commonAssumptions,
			Rules: []*RuleResult{c.rule("R18", ruleR18), c.rule("R2d", ruleR2d)},
			Explain: "partial"}
	}}
	properties["C17"] = propDef{run: func(c *Ctx) *PropertyRun {
		return &PropertyRun{Level: "other", Trusted: trustedBase, Assume: commonAssumptions,
			Rules: []*RuleResult{c.rule("R3", ruleR3), c.rule("R4", ruleR4), c.rule("R5", ruleR5), c.rule("R6", ruleR6), c.rule("R7", ruleR7)},
			Explain: "partial"}
	}}
	properties["C11"] = propDef{run: func(c *Ctx) *PropertyRun {
		return &PropertyRun{Level: "other", Trusted: trustedBase, Assume: commonAssumptions,
			Rules: []*RuleResult{c.rule("R9", ruleR9)},
			Explain: "partial"}
	}}
	properties["C12"] = propDef{run: func(c *Ctx) *PropertyRun {
		return &PropertyRun{Level: "other", Trusted: trustedBase, Assume: commonAssumptions,
			Rules: []*RuleResult{c.rule("R8", ruleR8), c.rule("R6", ruleR6)},
			Explain: "partial"}
	}}
	properties["C03"] = propDef{run: func(c *Ctx) *PropertyRun {
		return &PropertyRun{Level: "other", Trusted: trustedBase, Assume: commonAssumptions,
			Rules: []*RuleResult{c.rule("R5", ruleR5), c.rule("R7", ruleR7)},
			Explain: "partial"}
	}}
	properties["C02"] = propDef{run: func(c *Ctx) *PropertyRun {
		return &PropertyRun{Level: "other", Trusted: trustedBase, Assume: commonAssumptions,
			Rules: []*RuleResult{c.rule("R13", ruleR13), rolesFor(c, "C02"), c.rule("R10", ruleR10)},
			Explain: "partial"}
	}}
	properties["C15"] = propDef{run: func(c *Ctx) *PropertyRun {
		return &PropertyRun{Level: "other", Trusted: trustedBase, Assume: commonAssumptions,
			Rules: []*RuleResult{c.rule("R12", ruleR12), c.rule("R12g", ruleR12g)},
			Explain: "partial"}
	}}
	properties["C09"] = propDef{run: func(c *Ctx) *PropertyRun {
		return &PropertyRun{Level: "other", Trusted: trustedBase, Assume: commonAssumptions,
			Rules: []*RuleResult{c.rule("R15", ruleR15)},
			Explain: "partial"}
	}}
	properties["C10"] = propDef{run: func(c *Ctx) *PropertyRun {
		return &PropertyRun{Level: "other", Trusted: trustedBase, Assume: commonAssumptions,
			Rules: []*RuleResult{c.rule("R16", ruleR16)},
			Explain: "partial"}
	}}
	properties["C05"] = propDef{run: func(c *Ctx) *PropertyRun {
		return &PropertyRun{Level: "other", Trusted: trustedBase, Assume: commonAssumptions,
			Rules: []*RuleResult{c.rule("R19", ruleR19)},
			Explain: "partial"}
	}}
	properties["C08"] = propDef{run: func(c *Ctx) *PropertyRun {
		return &PropertyRun{Level: "other", Trusted: trustedBase, Assume: commonAssumptions,
			Rules: []*RuleResult{c.rule("R14", ruleR14)},
			Explain: "partial"}
	}}
	properties["C14"] = propDef{run: func(c *Ctx) *PropertyRun {
		return &PropertyRun{Level: "other", Trusted: trustedBase, Assume: commonAssumptions,
			Rules: []*RuleResult{c.rule("R17", ruleR17)},
			Explain: "partial"}
	}}
}

func init() {
	properties["C07"] = propDef{run: func(c *Ctx) *PropertyRun {
		return &PropertyRun{Level: "other", Trusted: trustedBase, Assume: commonAssumptions,
			Rules: []*RuleResult{c.rule("R21", ruleR21), c.rule("R11", ruleR11)},
			Explain: "partial"}
	}}
}
