package main

// align.go — the pinned symbol table (symbols_pinned.txt) and the alignment of the current tree's *unexported* names
// with it.
//
// The rule tables name functions and fields of the pinned tree ("withinRange", "size", "tree", "walk1"). Unexported names
// are not part of the library's interface: a refactoring may rename them freely. Before any rule runs, every unexported
// function and struct field of the current tree that the pinned table does not know is matched against the pinned symbols
// that the current tree no longer has — same package, same receiver type and identical signature (functions), same owner
// struct and identical type, in declaration order (fields). A unique match makes the current symbol an alias: FuncKey,
// fnName, methodsOf, fieldNameOf and fieldName report the pinned name, so the tables keep addressing the same construct.
// The alias only decides *which* construct a rule looks at; what the construct must do is still decided from its body.
// Unmatched new functions are "unknown helpers" (expanded in place by the path engine); a pinned symbol with no
// counterpart stays missing and the rules anchored in it report UNDECIDED.

import (
	_ "embed"
	"fmt"
	"go/types"
	"sort"
	"strings"

	"golang.org/x/tools/go/ssa"
)

//go:embed symbols_pinned.txt
var pinnedSymbols string

type pinnedTable struct {
	inl   map[string]bool     // function key → was expanded as an expression at pin time
	funcs map[string]string   // function key → signature
	types map[string][]string // type key → "name:type" per field, in order
	calls map[string][]string // function key → sorted simple names of its static library callees
}

var pinned *pinnedTable

func loadPinned() *pinnedTable {
	if pinned != nil {
		return pinned
	}
	t := &pinnedTable{funcs: map[string]string{}, types: map[string][]string{}, inl: map[string]bool{}, calls: map[string][]string{}}
	for _, l := range strings.Split(pinnedSymbols, "\n") {
		parts := strings.SplitN(strings.TrimSpace(l), "\t", 4)
		if len(parts) < 2 {
			continue
		}
		switch parts[0] {
		case "func":
			sig := ""
			if len(parts) >= 3 {
				sig = parts[2]
			}
			t.funcs[parts[1]] = sig
			t.inl[parts[1]] = len(parts) == 4 && parts[3] == "inl"
		case "calls":
			if len(parts) >= 3 && parts[2] != "" {
				t.calls[parts[1]] = strings.Split(parts[2], ",")
			} else {
				t.calls[parts[1]] = nil
			}
		case "type":
			var fs []string
			if len(parts) == 3 && parts[2] != "" {
				fs = strings.Split(parts[2], "|")
			}
			t.types[parts[1]] = fs
		}
	}
	pinned = t
	return t
}

// aliases of the loaded programs (a process loads the repository and the positive-control module; keys cannot collide)
var (
	aliasFunc  = map[*ssa.Function]string{} // generic function → pinned simple name
	aliasField = map[string]string{}        // "<pkgpath>.<Type>#<index>" → pinned field name
	aliasNotes []string
)

func (p *Prog) qualifier(pkg *types.Package) string {
	if pkg == nil {
		return ""
	}
	return p.RelPkg(pkg.Path())
}

// sigString: the signature by types only (parameter and result names are free to change).
func (p *Prog) sigString(fn *ssa.Function) string {
	sig := fn.Signature
	var ps, rs []string
	for i := 0; i < sig.Params().Len(); i++ {
		t := types.TypeString(sig.Params().At(i).Type(), p.qualifier)
		if sig.Variadic() && i == sig.Params().Len()-1 {
			t = "..." + strings.TrimPrefix(t, "[]")
		}
		ps = append(ps, t)
	}
	for i := 0; i < sig.Results().Len(); i++ {
		rs = append(rs, types.TypeString(sig.Results().At(i).Type(), p.qualifier))
	}
	return "func(" + strings.Join(ps, ", ") + ") (" + strings.Join(rs, ", ") + ")"
}

func rawFuncKey(p *Prog, fn *ssa.Function) string { return p.funcKey(fn, false) }

func isExportedName(n string) bool { return n != "" && n[0] >= 'A' && n[0] <= 'Z' }

// symbolLines renders the current tree in the format of symbols_pinned.txt.
func (p *Prog) symbolLines() []string {
	var out []string
	e := ComputeEffects(p)
	for _, fn := range p.Funcs {
		if fn.Parent() == nil && fn.Synthetic == "" {
			// was the function expanded as an expression at pin time? (a pinned function that was an opaque call then stays
			// one, even if a later edit turns its body into a single expression that forwards to something else)
			st := &pstate{b: &gcBuilder{p: p, e: e, fn: fn, cutIdx: map[string]int{}, out: &GCNF{Fn: fn}, pinning: true}, env: map[ssa.Value]*Term{}, onPath: map[string]bool{}, inl: true}
			var args []*Term
			for i := range fn.Params {
				args = append(args, leaf("p", itoa(i)))
			}
			flag := "-"
			if sum := e.Sum[fn]; sum != nil && len(sum.W) == 0 && sum.Out == nil && len(sum.Undecided) == 0 && len(sum.FreshInto) == 0 && len(sum.Keep) == 0 {
				if _, ok := st.inline(fn, args); ok {
					flag = "inl"
				}
			}
			out = append(out, "func\t"+rawFuncKey(p, fn)+"\t"+p.sigString(fn)+"\t"+flag)
			out = append(out, "calls\t"+rawFuncKey(p, fn)+"\t"+strings.Join(p.calleeNames(fn), ","))
		}
	}
	for _, pk := range p.Lib {
		scope := pk.Types.Scope()
		for _, name := range scope.Names() {
			tn, ok := scope.Lookup(name).(*types.TypeName)
			if !ok {
				continue
			}
			named, ok := types.Unalias(tn.Type()).(*types.Named)
			if !ok {
				continue
			}
			st, ok := named.Underlying().(*types.Struct)
			if !ok {
				continue
			}
			var fs []string
			for i := 0; i < st.NumFields(); i++ {
				fs = append(fs, st.Field(i).Name()+":"+types.TypeString(st.Field(i).Type(), p.qualifier))
			}
			out = append(out, "type\t"+p.TypeKey(named)+"\t"+strings.Join(fs, "|"))
		}
	}
	sort.Strings(out)
	return out
}

// align computes the aliases of the current tree (no-op for the positive-control module).
func (p *Prog) align() {
	if p.Control {
		return
	}
	pt := loadPinned()
	// ---- functions
	cur := map[string]*ssa.Function{}
	for _, fn := range p.Funcs {
		if fn.Parent() == nil && fn.Synthetic == "" {
			cur[rawFuncKey(p, fn)] = fn
		}
	}
	owner := func(key string) string { // "pkg.(*T)" or "pkg"
		if i := strings.LastIndexByte(key, '.'); i >= 0 {
			return key[:i]
		}
		return key
	}
	simple := func(key string) string { return key[strings.LastIndexByte(key, '.')+1:] }
	missing := map[string][]string{} // owner+sig → pinned keys absent from the current tree
	for k, sig := range pt.funcs {
		if _, ok := cur[k]; !ok && !isExportedName(simple(k)) {
			missing[owner(k)+"\t"+sig] = append(missing[owner(k)+"\t"+sig], k)
		}
	}
	fresh := map[string][]string{}
	for k, fn := range cur {
		if _, ok := pt.funcs[k]; !ok && !isExportedName(simple(k)) {
			fresh[owner(k)+"\t"+p.sigString(fn)] = append(fresh[owner(k)+"\t"+p.sigString(fn)], k)
		}
	}
	famCalls := map[string][]string{}
	for slot, ms := range missing {
		fs := fresh[slot]
		if len(ms) > 1 && len(fs) == 1 {
			// several pinned functions of one chain family were folded into one new function: it takes the place of the
			// family's entry point (the only member called from outside the family)
			for _, fam := range chainFamilies {
				all, entry := true, ""
				for _, m := range ms {
					if !strings.HasPrefix(simple(m), fam.prefix) {
						all = false
					}
					if simple(m) == fam.entry {
						entry = m
					}
				}
				if all && entry != "" {
					// what the merged function must resemble: everything the folded members called outside the family
					u := map[string]bool{}
					for _, m := range ms {
						for _, cn := range pt.calls[m] {
							if !strings.HasPrefix(cn, fam.prefix) {
								u[cn] = true
							}
						}
					}
					var us []string
					for cn := range u {
						us = append(us, cn)
					}
					sort.Strings(us)
					famCalls[entry] = us
					ms = []string{entry}
				}
			}
		}
		if len(ms) == 1 && len(fs) == 1 {
			// the candidate must also do roughly what the pinned function did: at least half of the library functions
			// either of them calls are called by both (a new helper that merely happens to have the vanished function's
			// signature — `heapify()` next to a `bubbleUp()` that became `bubbleUpIndex(i)` — is not it)
			want, have := pt.calls[ms[0]], p.calleeNames(cur[fs[0]])
			if fc, ok := famCalls[ms[0]]; ok {
				want = fc
				var h2 []string
				for _, cn := range have {
					if cn != cur[fs[0]].Name() {
						h2 = append(h2, cn)
					}
				}
				have = h2
			}
			if !similarCallees(want, have) {
				aliasNotes = append(aliasNotes, fmt.Sprintf("function %s has the signature of the vanished pinned %s but calls different functions (%v vs %v): not aligned", fs[0], ms[0], have, want))
				continue
			}
			aliasFunc[cur[fs[0]]] = simple(ms[0])
			aliasNotes = append(aliasNotes, fmt.Sprintf("function %s is the pinned %s (same receiver and signature; the pinned name is gone)", fs[0], ms[0]))
		}
	}
	// ---- struct fields
	for _, pk := range p.Lib {
		scope := pk.Types.Scope()
		for _, name := range scope.Names() {
			tn, ok := scope.Lookup(name).(*types.TypeName)
			if !ok {
				continue
			}
			named, ok := types.Unalias(tn.Type()).(*types.Named)
			if !ok {
				continue
			}
			st, ok := named.Underlying().(*types.Struct)
			if !ok {
				continue
			}
			pfs, ok := pt.types[p.TypeKey(named)]
			if !ok {
				continue
			}
			pinnedByName := map[string]string{}
			for _, f := range pfs {
				if i := strings.IndexByte(f, ':'); i >= 0 {
					pinnedByName[f[:i]] = f[i+1:]
				}
			}
			curNames := map[string]bool{}
			for i := 0; i < st.NumFields(); i++ {
				curNames[st.Field(i).Name()] = true
			}
			// pinned fields that disappeared / current fields that are new, grouped by type, in declaration order
			gone := map[string][]string{}
			for _, f := range pfs {
				i := strings.IndexByte(f, ':')
				if i < 0 {
					continue
				}
				if n := f[:i]; !curNames[n] && !isExportedName(n) {
					gone[f[i+1:]] = append(gone[f[i+1:]], n)
				}
			}
			added := map[string][]int{}
			for i := 0; i < st.NumFields(); i++ {
				f := st.Field(i)
				if _, ok := pinnedByName[f.Name()]; !ok && !isExportedName(f.Name()) {
					ts := types.TypeString(f.Type(), p.qualifier)
					added[ts] = append(added[ts], i)
				}
			}
			for ts, idxs := range added {
				if g := gone[ts]; len(g) == len(idxs) {
					for j, i := range idxs {
						aliasField[fieldAliasKey(named, i)] = g[j]
						aliasNotes = append(aliasNotes, fmt.Sprintf("field %s.%s is the pinned field %s (same type, same position among the renamed fields)", p.TypeKey(named), st.Field(i).Name(), g[j]))
					}
				}
			}
		}
	}
	sort.Strings(aliasNotes)
}

func fieldAliasKey(named *types.Named, idx int) string {
	o := named.Origin().Obj()
	pk := ""
	if o.Pkg() != nil {
		pk = o.Pkg().Path()
	}
	return fmt.Sprintf("%s.%s#%d", pk, o.Name(), idx)
}

// fieldNameIn: the (pinned) name of field idx of the struct type behind t.
func fieldNameIn(t types.Type, idx int) string {
	st := structOf(t)
	if st == nil || idx >= st.NumFields() {
		return fmt.Sprintf("f%d", idx)
	}
	if len(aliasField) > 0 {
		if n := namedOf(t); n != nil {
			if a, ok := aliasField[fieldAliasKey(n, idx)]; ok {
				return a
			}
		}
	}
	return st.Field(idx).Name()
}

// fieldN: the (pinned) name of field i of a named struct type.
func fieldN(n *types.Named, i int) string { return fieldNameIn(n, i) }

// fnName: the (pinned) simple name of a function.
func fnName(fn *ssa.Function) string {
	if fn == nil {
		return ""
	}
	if len(aliasFunc) > 0 {
		f := fn
		if o := f.Origin(); o != nil {
			f = o
		}
		if a, ok := aliasFunc[f]; ok {
			return a
		}
	}
	return fn.Name()
}

// KnownFunc reports whether fn is (an alias of) a named function of the pinned tree. Functions that are not — helpers
// introduced by a later change — have no frozen role in any rule table, so the path engine expands them in place.
func (p *Prog) KnownFunc(fn *ssa.Function) bool {
	if p.Control {
		return true
	}
	if o := fn.Origin(); o != nil {
		fn = o
	}
	for fn.Parent() != nil {
		fn = fn.Parent()
	}
	_, ok := loadPinned().funcs[p.FuncKey(fn)]
	return ok
}

// chainFamilies: pinned functions that form one recursive case chain with a single entry point (frozen from the pinned tree).
var chainFamilies = []struct{ prefix, entry string }{{"insertCase", "insertCase1"}, {"deleteCase", "deleteCase1"}}

// mergedInto: pinned helpers whose only caller is a one-line dispatcher. A refactoring may fold such a helper into the
// dispatcher; path rules anchored in the helper then read the dispatcher instead (its paths are the union of the helpers'
// paths, each under the dispatch condition). Frozen from the pinned tree's call graph.
var mergedInto = map[string]string{
	"trees/btree.(*Tree).insertIntoLeaf":     "insert",
	"trees/btree.(*Tree).insertIntoInternal": "insert",
}

// anchorFn: the method `name` of type tk, or — when it is gone and was folded into its dispatcher — the dispatcher.
func anchorFn(p *Prog, tk, name string) *ssa.Function {
	ct := typeByKey(p, tk)
	if ct == nil {
		return nil
	}
	ms := methodsOf(p, ct)
	if fn := ms[name]; fn != nil {
		return fn
	}
	i := strings.LastIndexByte(tk, '.')
	if d, ok := mergedInto[tk[:i+1]+"(*"+tk[i+1:]+")."+name]; ok {
		return ms[d]
	}
	return nil
}

// calleeNames: sorted simple names of the static library callees of fn (closures included).
func (p *Prog) calleeNames(fn *ssa.Function) []string {
	set := map[string]bool{}
	var walk func(f *ssa.Function, depth int)
	walk = func(f *ssa.Function, depth int) {
		for _, c := range allCalls(f) {
			if cal := StaticCallee(c.Common()); cal != nil && p.IsLib(cal) && cal.Synthetic == "" {
				o := cal
				if cal.Origin() != nil {
					o = cal.Origin()
				}
				if o.Parent() == nil {
					set[o.Name()] = true
				}
			}
		}
		if depth < 3 {
			for _, an := range f.AnonFuncs {
				walk(an, depth+1)
			}
		}
	}
	walk(fn, 0)
	var out []string
	for k := range set {
		out = append(out, k)
	}
	sort.Strings(out)
	return out
}

func similarCallees(a, b []string) bool {
	if len(a) == 0 && len(b) == 0 {
		return true
	}
	in := map[string]bool{}
	for _, x := range a {
		in[x] = true
	}
	both, union := 0, len(a)
	for _, x := range b {
		if in[x] {
			both++
		} else {
			union++
		}
	}
	return 2*both >= union
}
