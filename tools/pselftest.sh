#!/bin/bash
# pselftest.sh [PATTERN] — run tools/selftest.py over the matching mutants, 8 at a time; print failures and a summary.
pat=${1:-}
rm -rf /var/tmp/pst && mkdir -p /var/tmp/pst
cd /verif/mutants && ls -d *${pat}* | xargs -P 10 -I{} sh -c '/verif/tools/selftest.py {} > /var/tmp/pst/{}.out 2>&1'
cat /var/tmp/pst/*.out | grep -c '^ok' | sed 's/^/ok: /'
for f in /var/tmp/pst/*.out; do grep -q '^FAIL' $f && grep -v ' mutants, ' $f | cut -c1-${WIDTH:-300}; done
true
