#!/usr/bin/env python3
"""verify_seed.py Cxx a|b — verify an independently produced breaking change (from /tmp/seed/Cxx/_seed/<v>/) on scratch copies of
/repo under /var/tmp: (1) applies and builds, (2) the existing suite passes with it, (3) the demonstration fails with it,
(4) the demonstration passes without it; then runs every property check against the patched copy and records what fires.
Writes /verif/seeded/Cxx-<v>/{patch.diff,demo_test.go,README.md,meta.json}."""
import sys, os, re, json, subprocess, shutil, tempfile, glob
pid, var = sys.argv[1], sys.argv[2]
base = os.environ.get('SEED_BASE', '/tmp/seed')
src = f'{base}/{pid}/_seed/{var}'
ENV = dict(os.environ, GOFLAGS='-mod=mod', GOPROXY='off', GOSUMDB='off', GOTOOLCHAIN='local', GOWORK='off')
def run(cmd, cwd, timeout=600):
    r = subprocess.run(cmd, cwd=cwd, env=ENV, capture_output=True, text=True, timeout=timeout)
    return r.returncode, r.stdout + r.stderr
demo = open(f'{src}/demo_test.go').read()
m = re.search(r'^package\s+(\w+)', demo, re.M)
pkg = m.group(1); base = pkg[:-5] if pkg.endswith('_test') else pkg
cands = [d for d in glob.glob('/repo/*/*') + glob.glob('/repo/*') if os.path.isdir(d) and os.path.basename(d) == base and '/examples/' not in d]
assert len(cands) == 1, cands
rel = os.path.relpath(cands[0], '/repo')
res = {'property': pid, 'variant': var, 'demo_dir': rel}
tmp = tempfile.mkdtemp(prefix='seedv.', dir='/var/tmp')
try:
    for name in ('with', 'without'):
        subprocess.run(['rsync', '-a', '--exclude', '.git', '/repo/', f'{tmp}/{name}/'], check=True)
    c, out = run(['patch', '-p1', '-s', '-i', f'{src}/patch.diff'], f'{tmp}/with')
    res['applies'] = c == 0
    c, out = run(['go', 'build', './...'], f'{tmp}/with'); res['builds'] = c == 0
    c, out = run(['go', 'test', '-vet=off', '-count=1', './...'], f'{tmp}/with'); res['suite_passes_with_change'] = c == 0
    if c != 0: res['suite_output'] = out[-1500:]
    for name in ('with', 'without'):
        shutil.copy(f'{src}/demo_test.go', f'{tmp}/{name}/{rel}/zz_seed_demo_test.go')
    race = ['-race'] if 'race' in open(f'{src}/README.md').read().lower() and pid == 'C18' else []
    c1, o1 = run(['go', 'test', '-vet=off', '-count=1'] + race + ['./' + rel], f'{tmp}/with')
    c2, o2 = run(['go', 'test', '-vet=off', '-count=1'] + race + ['./' + rel], f'{tmp}/without')
    res['demo_fails_with_change'] = c1 != 0
    res['demo_passes_without_change'] = c2 == 0
    res['demo_output_with_change'] = '\n'.join(l for l in o1.splitlines() if 'FAIL' in l or 'panic' in l or '_test.go' in l)[:1200]
    if c2 != 0: res['demo_output_without'] = o2[-800:]
    os.remove(f'{tmp}/with/{rel}/zz_seed_demo_test.go')
    # checks against the patched copy
    c, out = run(['/verif/bin/gods-sa', 'check', 'all', '--repo', f'{tmp}/with', '--evidence-dir', f'{tmp}/ev'], '/verif')
    fired = [l for l in out.splitlines() if l.startswith('VIOLATED') or l.startswith('UNDECIDED') or l.startswith('FLOOR')]
    props = sorted(set(re.findall(r'VIOLATION property=(C\d+)', out)))
    res['checker_exit'] = c
    res['properties_alarmed'] = props
    res['obligations_fired'] = sorted(set(re.sub(r' at .*', '', l)[:200] for l in fired))
    res['caught_by_target_property'] = pid in props
    res['caught_by_any'] = bool(props)
finally:
    shutil.rmtree(tmp, ignore_errors=True)
ok = all(res.get(k) for k in ('applies', 'builds', 'suite_passes_with_change', 'demo_fails_with_change', 'demo_passes_without_change'))
res['confirmed'] = ok
d = f'/verif/seeded/{pid}-{os.environ.get("SEED_TAG", "")}{var}'
if ok:
    os.makedirs(d, exist_ok=True)
    for f in ('patch.diff', 'demo_test.go', 'README.md'):
        shutil.copy(f'{src}/{f}', f'{d}/{f}')
    json.dump(res, open(f'{d}/meta.json', 'w'), indent=1)
print(json.dumps({k: res[k] for k in res if k not in ('demo_output_with_change',)}, indent=1))
