#!/usr/bin/env python3
"""check_benign.py DIR NAME — DIR/patch.diff is claimed to be a behaviour-preserving refactoring. Apply it to a scratch copy of
/repo, build, run the unedited suite, run every property check, and report alarms. If it builds and the suite passes it is
stored as /verif/mutants/benign-ext-NAME (benign=true) so that selftest keeps checking silence."""
import sys, os, re, json, subprocess, shutil, tempfile
d, name = sys.argv[1], sys.argv[2]
ENV = dict(os.environ, GOFLAGS='-mod=mod', GOPROXY='off', GOSUMDB='off', GOTOOLCHAIN='local', GOWORK='off')
tmp = tempfile.mkdtemp(prefix='benv.', dir='/var/tmp')
try:
    subprocess.run(['rsync', '-a', '--exclude', '.git', '/repo/', f'{tmp}/r/'], check=True)
    r = subprocess.run(['patch', '-p1', '-s', '-d', f'{tmp}/r', '-i', f'{d}/patch.diff'], capture_output=True, text=True)
    if r.returncode != 0:
        print(name, 'PATCH-FAILS'); sys.exit(0)
    r = subprocess.run(['go', 'build', './...'], cwd=f'{tmp}/r', env=ENV, capture_output=True, text=True)
    if r.returncode != 0:
        print(name, 'BUILD-FAILS'); sys.exit(0)
    r = subprocess.run(['go', 'test', '-vet=off', '-count=1', './...'], cwd=f'{tmp}/r', env=ENV, capture_output=True, text=True)
    if r.returncode != 0:
        print(name, 'TESTS-FAIL'); sys.exit(0)
    r = subprocess.run(['/verif/bin/gods-sa', 'check', 'all', '--repo', f'{tmp}/r', '--evidence-dir', f'{tmp}/ev'], capture_output=True, text=True)
    out = r.stdout + r.stderr
    props = sorted(set(re.findall(r'VIOLATION property=(C\d+)', out)))
    fired = sorted(set(re.sub(r' at .*', '', l)[:160] for l in out.splitlines() if l.startswith(('VIOLATED', 'UNDECIDED', 'FLOOR'))))
    md = f'/verif/mutants/benign-ext-{name}'
    os.makedirs(md, exist_ok=True)
    shutil.copy(f'{d}/patch.diff', f'{md}/patch.diff')
    note = open(f'{d}/README.md').read()[:600] if os.path.exists(f'{d}/README.md') else ''
    json.dump({'name': f'benign-ext-{name}', 'props': ['all'], 'expect': [], 'benign': True, 'external': True, 'note': note}, open(f'{md}/meta.json', 'w'), indent=1)
    print(name, 'SILENT' if not props and r.returncode == 0 else f'ALARM {props} exit={r.returncode}', ' | '.join(fired[:4]))
finally:
    shutil.rmtree(tmp, ignore_errors=True)
