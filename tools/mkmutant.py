#!/usr/bin/env python3
"""mkmutant.py NAME --props C18,C16 --expect KEY[,KEY] [--benign] --note TEXT  FILE:::OLD:::NEW [FILE:::OLD:::NEW ...]
Creates /verif/mutants/NAME/{patch.diff,meta.json} by string replacement against /repo (never modifies /repo)."""
import sys, os, json, subprocess, tempfile, argparse
ap = argparse.ArgumentParser()
ap.add_argument('name'); ap.add_argument('--props', required=True); ap.add_argument('--expect', default='')
ap.add_argument('--benign', action='store_true'); ap.add_argument('--note', default='')
ap.add_argument('edits', nargs='+')
a = ap.parse_args()
d = f'/verif/mutants/{a.name}'; os.makedirs(d, exist_ok=True)
byfile = {}
for e in a.edits:
    f, old, new = e.split(':::')
    byfile.setdefault(f, []).append((old, new))
patch = ''
for f, eds in byfile.items():
    src = open(f'/repo/{f}').read(); out = src
    for old, new in eds:
        old = old.encode().decode('unicode_escape'); new = new.encode().decode('unicode_escape')
        if out.count(old) != 1:
            sys.exit(f'{f}: pattern occurs {out.count(old)} times: {old!r}')
        out = out.replace(old, new)
    with tempfile.NamedTemporaryFile('w', suffix='.go', delete=False) as t:
        t.write(out); tn = t.name
    r = subprocess.run(['diff', '-u', '--label', f'a/{f}', '--label', f'b/{f}', f'/repo/{f}', tn], capture_output=True, text=True)
    os.unlink(tn)
    patch += r.stdout
open(f'{d}/patch.diff', 'w').write(patch)
json.dump({'name': a.name, 'props': a.props.split(','), 'expect': [x for x in a.expect.split(',') if x], 'benign': a.benign, 'note': a.note},
          open(f'{d}/meta.json', 'w'), indent=1)
print('wrote', d)
