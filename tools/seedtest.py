#!/usr/bin/env python3
"""seedtest.py [NAME...] — run every property check against each independently seeded change in /verif/seeded (scratch copy of /repo
under /var/tmp, patch applied), print which properties / obligations alarm, and update meta.json's checker fields."""
import sys, os, re, json, subprocess, shutil, tempfile, glob
from concurrent.futures import ThreadPoolExecutor
names = sys.argv[1:] or sorted(os.path.basename(p) for p in glob.glob('/verif/seeded/*') if os.path.isdir(p))
def one(n):
    d = f'/verif/seeded/{n}'
    meta = json.load(open(f'{d}/meta.json'))
    tmp = tempfile.mkdtemp(prefix='seedt.', dir='/var/tmp')
    try:
        subprocess.run(['rsync', '-a', '--exclude', '.git', '/repo/', f'{tmp}/r/'], check=True)
        r = subprocess.run(['patch', '-p1', '-s', '-d', f'{tmp}/r', '-i', f'{d}/patch.diff'], capture_output=True, text=True)
        if r.returncode != 0:
            return n, None, ['PATCH DOES NOT APPLY']
        r = subprocess.run(['/verif/bin/gods-sa', 'check', 'all', '--repo', f'{tmp}/r', '--evidence-dir', f'{tmp}/ev'], capture_output=True, text=True)
        out = r.stdout + r.stderr
        props = sorted(set(re.findall(r'VIOLATION property=(C\d+)', out)))
        fired = sorted(set(re.sub(r' at .*', '', l)[:200] for l in out.splitlines() if l.startswith(('VIOLATED', 'UNDECIDED', 'FLOOR'))))
        if r.returncode == 2 or 'infrastructure failure' in out or 'panic:' in out:
            fired.append('CHECKER FAILURE: ' + out[-300:])
        meta['properties_alarmed'] = props; meta['obligations_fired'] = fired
        meta['caught_by_target_property'] = meta['property'] in props; meta['caught_by_any'] = bool(props)
        json.dump(meta, open(f'{d}/meta.json', 'w'), indent=1)
        return n, props, fired
    finally:
        shutil.rmtree(tmp, ignore_errors=True)
with ThreadPoolExecutor(8) as ex:
    res = list(ex.map(one, names))
miss = 0
for n, props, fired in res:
    tgt = n.split('-')[0]
    st = 'TARGET' if props and tgt in props else ('other ' if props else 'MISSED')
    if st != 'TARGET': miss += 1
    print(f'{st} {n}: {props}  ' + ' | '.join(f[:90] for f in (fired or [])[:3]))
print(f'{len(res)} seeded changes, {len(res)-miss} caught by their target property')
