#!/usr/bin/env python3
"""mutprobe.py [--max N] [--filter SUBSTR] [--jobs J] — mutation probe of the checker itself (development aid, not a registered
check): applies small syntactic mutations (relational / arithmetic / boolean operator swaps, Left↔Right, next↔prev, first↔last,
true↔false, deletion of simple assignments) to the library's non-test sources in scratch copies under /var/tmp, keeps those
that still build and pass the unedited suite (survivors), and runs every property check against each survivor. Survivors that
no check reports are printed for triage: each is either an equivalent mutant or a miss. Nothing is written to /repo or /verif."""
import sys, os, re, subprocess, shutil, random, json, argparse, concurrent.futures as cf
ap = argparse.ArgumentParser()
ap.add_argument('--max', type=int, default=400)
ap.add_argument('--filter', default='')
ap.add_argument('--jobs', type=int, default=14)
ap.add_argument('--seed', type=int, default=1)
ap.add_argument('--out', default='/var/tmp/mutprobe.jsonl')
args = ap.parse_args()
ENV = dict(os.environ, GOFLAGS='-mod=mod', GOPROXY='off', GOSUMDB='off', GOTOOLCHAIN='local', GOWORK='off')
REPO = '/repo'
files = []
for root, ds, fs in os.walk(REPO):
    if '/.git' in root or '/examples' in root or '/testutils' in root:
        continue
    for f in fs:
        if f.endswith('.go') and not f.endswith('_test.go'):
            p = os.path.relpath(os.path.join(root, f), REPO)
            if args.filter in p:
                files.append(p)
files.sort()
SWAPS = [(r'<=', '<'), (r'>=', '>'), (r'(?<![<>=!:])<(?![<=-])', '<='), (r'(?<![<>=!-])>(?![>=])', '>='), (r'==', '!='), (r'!=', '=='),
         (r'\+ 1\b', '- 1'), (r'- 1\b', '+ 1'), (r'\+1\b', '-1'), (r'(?<![(,=] )-1\b', '+1'), (r'&&', '||'), (r'\|\|', '&&'),
         (r'\.Left\b', '.Right'), (r'\.Right\b', '.Left'), (r'\.next\b', '.prev'), (r'\.prev\b', '.next'),
         (r'\.first\b', '.last'), (r'\.last\b', '.first'), (r'\btrue\b', 'false'), (r'\bfalse\b', 'true'),
         (r'\+\+', '--'), (r'--', '++'), (r'\[0\]', '[1]'), (r'\[1\]', '[0]'), (r'\bred\b', 'black'), (r'\bblack\b', 'red'),
         (r'/ 2\b', '/ 2 + 1'), (r'\* 2\b', '* 2 + 1'),
         # probe 3: method-name swaps, argument swaps, negation removal, index shifts, break/continue
         (r'\.Next\(\)', '.Prev()'), (r'\.Prev\(\)', '.Next()'), (r'\.First\(\)', '.Last()'), (r'\.Last\(\)', '.First()'),
         (r'\.Begin\(\)', '.End()'), (r'\.End\(\)', '.Begin()'), (r'\.Left\(\)', '.Right()'), (r'\.Right\(\)', '.Left()'),
         (r'\.Append\(', '.Prepend('), (r'\.Prepend\(', '.Append('), (r'\bFloor\(', 'Ceiling('), (r'\bCeiling\(', 'Floor('),
         (r'\bbreak\b', 'continue'), (r'\bcontinue\b', 'break'), (r'!(?=[a-zA-Z(])', ''),
         (r'\[(\w+)\]', r'[\1+1]'), (r'\[(\w+)\]', r'[\1-1]'), (r'\((\w+), (\w+)\)', r'(\2, \1)'),
         (r'\blen\((\w+(?:\.\w+)*)\)', r'len(\1)-1'), (r'\.Size\(\)', '.Size()-1'), (r'\.Size\(\)', '.Size()+1'),
         (r'\b0\b', '1'), (r'\b1\b', '0'), (r'\b1\b', '2')]
muts = []
for f in files:
    lines = open(os.path.join(REPO, f)).read().split('\n')
    infunc = False
    for i, ln in enumerate(lines):
        code = ln.split('//')[0]
        if code.startswith('func '):
            infunc = True
        if not infunc or not code.strip() or code.strip().startswith(('import', 'package', '"', 'type ', 'var ', 'const ')):
            continue
        if 'Sprintf' in code or 'WriteString' in code and '"' in code:
            pass
        for pat, rep in SWAPS:
            for m in re.finditer(pat, code):
                # not inside a string literal
                if code[:m.start()].count('"') % 2 == 1:
                    continue
                new = code[:m.start()] + m.expand(rep) + code[m.end():] + ln[len(code):]
                muts.append((f, i, new, f'{pat}->{rep}@{m.start()}'))
        s = code.strip()
        if re.match(r'^[\w\.\[\]\*\(\)]+(\.[\w\[\]]+)* (=|\+=|-=) [^=].*$', s) and ':=' not in s and not s.startswith(('return', 'if', 'for', 'case', 'switch')):
            muts.append((f, i, '', 'delete-stmt'))
        if re.match(r'^[\w\.\[\]\*\(\)]+(\+\+|--)$', s):
            muts.append((f, i, '', 'delete-stmt'))
random.Random(args.seed).shuffle(muts)
muts = muts[:args.max]
print(f'{len(files)} files, {len(muts)} mutants selected', flush=True)
os.makedirs('/var/tmp/mp', exist_ok=True)

def worker(job):
    wid, chunk = job
    d = f'/var/tmp/mp/w{wid}'
    shutil.rmtree(d, ignore_errors=True)
    subprocess.run(['rsync', '-a', '--exclude', '.git', REPO + '/', d + '/'], check=True)
    out = []
    for (f, i, new, kind) in chunk:
        path = os.path.join(d, f)
        orig = open(path).read()
        lines = orig.split('\n')
        old = lines[i]
        lines[i] = new
        open(path, 'w').write('\n'.join(lines))
        rec = {'file': f, 'line': i + 1, 'kind': kind, 'old': old.strip(), 'new': new.strip()}
        try:
            r = subprocess.run(['go', 'build', './...'], cwd=d, env=ENV, capture_output=True, text=True, timeout=300)
            if r.returncode != 0:
                rec['status'] = 'nobuild'
            else:
                t = subprocess.run(['go', 'test', '-vet=off', '-timeout', '60s', './...'], cwd=d, env=ENV, capture_output=True, text=True, timeout=900)
                if t.returncode != 0:
                    rec['status'] = 'killed'
                else:
                    c = subprocess.run(['/verif/bin/gods-sa', 'check', 'all', '--repo', d, '--evidence-dir', f'/var/tmp/mp/ev{wid}'], capture_output=True, text=True, errors='replace', timeout=600)
                    o = c.stdout + c.stderr
                    props = sorted(set(re.findall(r'VIOLATION property=(C\d+)', o)))
                    fired = sorted(set(re.sub(r' at .*', '', l)[:110] for l in o.splitlines() if l.startswith(('VIOLATED', 'UNDECIDED', 'FLOOR'))))
                    rec['status'] = 'caught' if props or c.returncode != 0 else 'SURVIVED-UNCAUGHT'
                    rec['props'] = props
                    rec['fired'] = fired[:4]
        except subprocess.TimeoutExpired:
            rec['status'] = 'timeout'
        open(path, 'w').write(orig)
        out.append(rec)
        with open(args.out, 'a') as fh:
            fh.write(json.dumps(rec) + '\n')
    shutil.rmtree(d, ignore_errors=True)
    shutil.rmtree(f'/var/tmp/mp/ev{wid}', ignore_errors=True)
    return out

open(args.out, 'w').close()
J = args.jobs
chunks = [(w, muts[w::J]) for w in range(J)]
res = []
with cf.ThreadPoolExecutor(J) as ex:
    for r in ex.map(worker, chunks):
        res += r
from collections import Counter
print(Counter(r['status'] for r in res))
for r in res:
    if r['status'] == 'SURVIVED-UNCAUGHT':
        print(f"UNCAUGHT {r['file']}:{r['line']} [{r['kind']}]  {r['old']}  =>  {r['new']}")
