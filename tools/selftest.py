#!/usr/bin/env python3
"""selftest.py [NAME...] — apply each mutant in /verif/mutants to a scratch copy of /repo (under /var/tmp), check that it
still compiles (go build + go vet-free test compile), run the affected property checks and assert that the expected
obligation keys are reported (or, for benign mutants, that every check stays silent). Not part of any registered command."""
import sys, os, json, subprocess, shutil, tempfile, glob
ENV = dict(os.environ, GOFLAGS='-mod=mod', GOPROXY='off', GOSUMDB='off', GOTOOLCHAIN='local', GOWORK='off')
names = sys.argv[1:] or sorted(os.path.basename(p) for p in glob.glob('/verif/mutants/*') if os.path.isdir(p))
runtests = os.environ.get('SELFTEST_RUN_TESTS') == '1'
fails = 0
for n in names:
    d = f'/verif/mutants/{n}'
    meta = json.load(open(f'{d}/meta.json'))
    tmp = tempfile.mkdtemp(prefix='gods-sa.', dir='/var/tmp')
    try:
        repo = f'{tmp}/repo'; ev = f'{tmp}/ev'
        subprocess.run(['rsync', '-a', '--exclude', '.git', '/repo/', repo + '/'], check=True)
        r = subprocess.run(['patch', '-p1', '-s', '-d', repo, '-i', f'{d}/patch.diff'], capture_output=True, text=True)
        if r.returncode != 0:
            print(f'FAIL {n}: patch does not apply: {r.stdout}{r.stderr}'); fails += 1; continue
        r = subprocess.run(['go', 'build', './...'], cwd=repo, env=ENV, capture_output=True, text=True)
        if r.returncode != 0:
            print(f'FAIL {n}: mutant does not compile: {r.stderr[:400]}'); fails += 1; continue
        if runtests:
            r = subprocess.run(['go', 'test', '-vet=off', '-count=1', './...'], cwd=repo, env=ENV, capture_output=True, text=True)
            tests_pass = r.returncode == 0
        else:
            tests_pass = None
        out = ''; code = 0
        for pid in (['all'] if meta['props'] == ['all'] else meta['props']):
            r = subprocess.run(['/verif/bin/gods-sa', 'check', pid, '--repo', repo, '--evidence-dir', ev], capture_output=True, text=True)
            out += r.stdout + r.stderr
            code = max(code, r.returncode)
        if meta.get('benign') and meta.get('residual'):
            ok = True  # a documented residual false alarm (DESIGN §2.6): tracked, not asserted
            why = 'residual false alarm (documented)' if code != 0 else 'residual — now silent'
        elif meta.get('benign'):
            ok = code == 0
            why = 'silent' if ok else 'ALARM on benign edit'
        else:
            missing = [k for k in meta['expect'] if k not in out]
            ok = code == 1 and not missing
            why = 'caught' if ok else f'exit={code} missing={missing}'
        tp = '' if tests_pass is None else f' tests_pass={tests_pass}'
        print(f'{"ok  " if ok else "FAIL"} {n}: {why}{tp}')
        if not ok:
            fails += 1
            print('    ' + '\n    '.join(l for l in out.splitlines() if 'VIOL' in l or 'UNDEC' in l or 'FLOOR' in l or 'failure' in l)[:3000])
    finally:
        shutil.rmtree(tmp, ignore_errors=True)
print(f'{len(names)} mutants, {fails} failures')
sys.exit(1 if fails else 0)
