#!/usr/bin/env python3
"""mkround.py SEEDDIR BENIGNDIR P1,P2,... — prepare one experiment round: a scratch git worktree of /repo per property (with the
property text only) and per benign area, and the self-contained prompt files the sub-agents are pointed at. Nothing from /verif
other than the property text is visible to them. Remove the worktrees afterwards (git -C /repo worktree remove --force)."""
import json, subprocess, os, sys
seedbase, benbase, pids = sys.argv[1], sys.argv[2], [p for p in sys.argv[3].split(',') if p]
os.makedirs(seedbase, exist_ok=True); os.makedirs(benbase, exist_ok=True)
props={}
for l in open('/verif/properties.jsonl'):
    p=json.loads(l); props[p['id']]=p
t=open('/verif/tools/prompts/seed_template.txt').read()
extra=open('/verif/tools/prompts/seed_round4_extra.txt').read()
extra2='\nFURTHER: several earlier rounds converged on the same few ideas (dropping a found-check so that the zero value is removed; `child = node.Left` in the red-black Remove; hoisting deletedKey in the B-tree delete; a hand-written </> comparator that mishandles NaN; `append(values, list.elements...)`; a Contains fast path on len(args); a cache/memo field in Keys()/Get(); a stale `full` flag in the ring at capacity 1; swapping two colour assignments in deleteCase6; taking the in-order successor in the B-tree delete). Do NOT produce these again. Look at code nobody has touched yet: AVL balance bookkeeping, B-tree split/merge index arithmetic for orders above 3, iterator PrevTo/NextTo/Last/First, Set/Swap/Sort on the lists, Floor/Ceiling/Left/Right, circular buffer wrap-around at capacity 1 or 2, heap iterator level arithmetic, bidimap evictions, enumerable Map/Select constructors, serialization of empty / single-element / non-string-key containers, String() output, constructors with initial values, the priority queue, the linked-list stack and queue adapters.\n'
for pid in pids:
    d=f'{seedbase}/{pid}'
    subprocess.run(['git','-C','/repo','worktree','add','--detach','-f',d,'HEAD'],check=True,capture_output=True)
    os.makedirs(d+'/_seed',exist_ok=True)
    p=props[pid]
    open(d+'/_seed/PROPERTY.txt','w').write(f"{p['id']}: {p['title']}\n\nSTATEMENT\n{p['statement']}\n\nQUANTIFIED OVER\n{p['quantifier']}\n")
    open(f'{seedbase}/{pid}.prompt','w').write(t.replace('@BASE@',seedbase).replace('@ID@',pid)+'\n'+extra+extra2)
b=open('/verif/tools/prompts/benign_template.txt').read()
areas={'lists':'the three lists: lists/arraylist, lists/singlylinkedlist, lists/doublylinkedlist — including their iterator.go, enumerable.go and serialization.go files',
 'stacks-queues':'the stacks and queues and the heap: stacks/arraystack, stacks/linkedliststack, queues/arrayqueue, queues/linkedlistqueue, queues/circularbuffer, queues/priorityqueue, trees/binaryheap — including iterators and serialization',
 'trees':'the three search trees: trees/redblacktree, trees/avltree, trees/btree — including their iterators and serialization',
 'maps-sets':'all maps and sets: maps/hashmap, maps/treemap, maps/linkedhashmap, maps/hashbidimap, maps/treebidimap, sets/hashset, sets/treeset, sets/linkedhashset — including iterators, enumerable and serialization'}
kinds='extract or inline a helper function; merge two functions or split one; turn recursion into a loop or a loop into recursion; replace a hand-written loop by a standard-library slices/maps function or the reverse; early-return / guard-clause restructuring; De Morgan rewrites and swapped if/else arms; reorder independent statements; rename unexported identifiers or fields; introduce local variables or a local cursor and write the field once at the end; replace a delegating call by the direct call on the inner container (or the reverse); cache a repeatedly computed value in a local; change how an index or bound is spelled; replace a switch by if-chains or the reverse; hoist or sink a computation that is provably unaffected; write out a composition or fold written-out code back into calls; change the representation of a private flag; replace index arithmetic by an equivalent form.'
extra_b='\nADDITIONAL GUIDANCE: earlier batches already covered the simplest edits AND the following ideas, which you must NOT repeat: merging the red-black insertCase/deleteCase functions into loops; bubbleUp as recursive bubbleUpIndex; First/Last written out; a position()/IndexOf helper in the linked hash set; Union over an array of the two operands; smaller/larger locals in Intersection; removing the circular buffer\'s full flag; GetNode instead of Get in the bidimap; elementAt helper in the doubly linked list; Insert in the array list with a hand-written shift loop; AVL put as a loop with an explicit path stack; red-black Put descending with a **Node link pointer; ring Enqueue on local start/end/full written back once; an advance(pos) wrap helper in the ring; TreeSet Difference over the inner tree; Stack.Values through the stack\'s own iterator; strings.Builder in String(); heapify()/smallerChild() helpers in the heap. Find DIFFERENT restructurings of comparable weight, in operations and files not mentioned here (e.g. AVL remove/removeMin/rotations, B-tree split/rebalance/delete/search, tree iterators, Floor/Ceiling, heap iterator, ring iterator/Values/Peek, list Swap/Sort/Set/Prepend/Remove, enumerable and serialization code, constructors, bidimap Put/Remove, linked hash map Put/Remove/iterators). Behaviour must be exactly preserved.\n'
for a,d in areas.items():
    dd=f'{benbase}/{a}'
    subprocess.run(['git','-C','/repo','worktree','add','--detach','-f',dd,'HEAD'],check=True,capture_output=True)
    open(f'{benbase}/{a}.prompt','w').write(b.replace('@BASE@',benbase).replace('@AREA@',a).replace('@DESC@',d).replace('@KINDS@',kinds)+extra_b)
print('prepared', len(pids), 'seed worktrees and', len(areas), 'benign worktrees')
